#!/usr/bin/env python3
"""Cross-checks the solver verdicts of a check against two other solvers.

usage: crosscheck.py <prop> [--tier quick] [--only <harness>] [--max-mb 40] [--workers 4]

Runs `gosx check` for the property with GOSX_SMTLOG set, so every worker writes the exact SMT-LIB2
session it had with the deciding solver (z3 5.1.0, `z3-new`) with its verdict after each
(check-sat) as a comment. Each session is then replayed verbatim through z3 4.8.12 and
cvc5 --incremental (1.0.x) and the verdict sequences are compared. A sat/unsat disagreement is
reported and makes the exit code 1; unknown/timeouts of the other solvers are counted, not errors.
Evidence of the unchanged tree is not touched (VERIF_OUT points at scratch).
"""
import json, os, re, shutil, subprocess, sys, tempfile, time
from concurrent.futures import ThreadPoolExecutor


def verdicts_from_log(path):
    out = []
    for line in open(path, errors="replace"):
        if line.startswith("; answer: "):
            out.append(line.split()[2])
    return out


def strip_getvalue(src, dst, prelude):
    # get-value / get-model output is not compared; dropping the commands keeps the answer stream aligned
    with open(src, errors="replace") as f, open(dst, "w") as g:
        g.write(prelude)
        for line in f:
            if line.startswith("(get-value") or line.startswith("(get-model") or line.startswith("(set-option :produce-models"):
                continue
            g.write(line)


def replay(solver_cmd, path, timeout):
    try:
        p = subprocess.run(solver_cmd, stdin=open(path), capture_output=True, text=True, timeout=timeout)
    except subprocess.TimeoutExpired as e:
        txt = e.stdout or ""
        if isinstance(txt, bytes):
            txt = txt.decode(errors="replace")
        return [l.strip() for l in txt.splitlines() if l.strip() in ("sat", "unsat", "unknown", "timeout")], ["TIMEOUT of the whole replay"]
    ans, errs = [], []
    for l in p.stdout.splitlines():
        l = l.strip()
        if l in ("sat", "unsat", "unknown", "timeout"):
            ans.append("unknown" if l == "timeout" else l)
        elif l.startswith("(error"):
            errs.append(l[:200])
    return ans, errs


def main():
    prop = sys.argv[1]
    tier, only, maxmb, workers = "quick", None, 40, 4
    for i, a in enumerate(sys.argv):
        if a == "--tier":
            tier = sys.argv[i + 1]
        if a == "--only":
            only = sys.argv[i + 1]
        if a == "--max-mb":
            maxmb = int(sys.argv[i + 1])
        if a == "--workers":
            workers = int(sys.argv[i + 1])
    scratch = tempfile.mkdtemp(prefix="cross-")
    try:
        env = dict(os.environ, GOSX_SMTLOG=os.path.join(scratch, "q"), VERIF_OUT=os.path.join(scratch, "out"))
        os.makedirs(env["VERIF_OUT"])
        cmd = ["/verif/bin/gosx", "check", "-prop", prop, "-tier", tier, "-no-replay", "-workers", str(workers)]
        if only:
            cmd += ["-only", only]
        t0 = time.time()
        p = subprocess.run(cmd, cwd="/verif", env=env, capture_output=True, text=True)
        print(p.stdout.strip().splitlines()[-1][:200] if p.stdout.strip() else p.stderr[-300:])
        logs = sorted(f for f in os.listdir(scratch) if f.startswith("q."))
        total = {"queries": 0, "z3-4.8.12": {"agree": 0, "unknown": 0, "disagree": 0, "errors": 0}, "cvc5": {"agree": 0, "unknown": 0, "disagree": 0, "errors": 0}}
        bad = []

        def one(f):
            path = os.path.join(scratch, f)
            if os.path.getsize(path) > maxmb << 20:
                # cut at a line boundary; the tail of the session is not compared
                with open(path, "rb") as fh:
                    data = fh.read(maxmb << 20)
                data = data[: data.rfind(b"\n; answer:")]
                data = data[: data.rfind(b"\n") + 1]
                open(path, "wb").write(data)
            ref = verdicts_from_log(path)
            res = {}
            for name, cmd, prelude in (
                ("z3-4.8.12", ["z3", "-in", "-t:60000"], ""),
                ("cvc5", ["cvc5", "--incremental", "--lang=smt2", "--tlimit-per=60000"], "(set-logic ALL)\n"),
            ):
                q = path + "." + name + ".smt2"
                strip_getvalue(path, q, prelude)
                ans, errs = replay(cmd, q, 3600)
                os.remove(q)
                res[name] = (ans, errs)
            return f, ref, res

        with ThreadPoolExecutor(max_workers=8) as ex:
            for f, ref, res in ex.map(one, logs):
                total["queries"] += len(ref)
                for name, (ans, errs) in res.items():
                    t = total[name]
                    t["errors"] += len(errs)
                    for e in errs[:3]:
                        print("  %s %s: %s" % (f, name, e))
                    for i, r in enumerate(ref):
                        if i >= len(ans):
                            t["unknown"] += 1
                            continue
                        a = ans[i]
                        if a == r:
                            t["agree"] += 1
                        elif a == "unknown" or r == "unknown":
                            t["unknown"] += 1
                        else:
                            t["disagree"] += 1
                            bad.append((f, name, i, r, a))
        total["wall_s"] = round(time.time() - t0, 1)
        total["property"] = prop
        total["tier"] = tier
        print(json.dumps(total))
        for b in bad[:10]:
            print("DISAGREEMENT log=%s solver=%s query#%d deciding=%s other=%s" % b)
        os.makedirs("/verif/crosscheck", exist_ok=True)
        json.dump(total, open("/verif/crosscheck/%s.json" % prop, "w"), indent=1)
        sys.exit(1 if bad else 0)
    finally:
        shutil.rmtree(scratch, ignore_errors=True)


if __name__ == "__main__":
    main()
