#!/usr/bin/env python3
"""usage: mkthorough.py <runall thorough log> — writes /verif/measured_thorough.json from the one-line summaries"""
import json, re, sys, time
runs = {}
for l in open(sys.argv[1]):
    m = re.match(r"(C\d\d) thorough: harnesses=(\d+) paths=(\d+) .*queries=(\d+) solver=([\d.]+)s violations=(\d+) \(known (\d+)\).* wall=([\d.]+)s exit=(\d+)", l)
    if m:
        runs[m.group(1)] = {"harnesses": int(m.group(2)), "paths": int(m.group(3)), "queries": int(m.group(4)), "solver_s": float(m.group(5)),
                            "violations": int(m.group(6)), "known": int(m.group(7)), "wall": m.group(8) + " s", "exit": int(m.group(9))}
json.dump({"when": time.strftime("%Y-%m-%d %H:%M UTC", time.gmtime()), "runs": runs}, open("/verif/measured_thorough.json", "w"), indent=1)
print(len(runs), "runs;", "all exit 0" if all(r["exit"] == 0 for r in runs.values()) else "NOT ALL EXIT 0")
