#!/usr/bin/env python3
"""Runs every claimed check against /repo with a behaviour-preserving change applied.

usage: benigntest.py <diff> <name> [--props C01,C02] [--tier quick]

Applies the diff to a scratch worktree of /repo's HEAD, runs the checks against it (-repo) with
VERIF_OUT pointing at a scratch directory (so the committed evidence files are not overwritten),
removes the worktree and stores the diff and the outcome under /verif/seeded/benign/<name>/.
Any exit code other than 0 is a false alarm (or shows that the change is not preserving after all).
"""
import json, os, shutil, subprocess, sys, tempfile, time

ENV = dict(os.environ, GOFLAGS="-mod=mod", GOPROXY="off", GOSUMDB="off", GOTOOLCHAIN="local")


def run(cmd, cwd=None, timeout=3600, env=ENV):
    p = subprocess.run(cmd, cwd=cwd, env=env, capture_output=True, text=True, timeout=timeout)
    return p.returncode, p.stdout + p.stderr


def main():
    diff, name = sys.argv[1], sys.argv[2]
    props, tier, workers = None, "quick", "16"
    for i, a in enumerate(sys.argv):
        if a == "--props":
            props = sys.argv[i + 1].split(",")
        if a == "--tier":
            tier = sys.argv[i + 1]
        if a == "--workers":
            workers = sys.argv[i + 1]
    if props is None:
        props = [c["property_id"] for c in json.load(open("/verif/MANIFEST.json"))["checks"]]
    # a scratch worktree of /repo's HEAD with the change applied (so several can run side by side)
    wt = tempfile.mkdtemp(prefix="benignwt-")
    os.rmdir(wt)
    rc, out = run(["git", "-C", "/repo", "worktree", "add", "-q", "--detach", wt, "HEAD"])
    assert rc == 0, out
    if os.path.exists("/repo/go.sum"):
        shutil.copy("/repo/go.sum", wt)
    rc, out = run(["git", "-C", wt, "apply", diff])
    if rc != 0:
        # the change was written against an earlier HEAD (before later fix: commits): merge it
        rc, out = run(["git", "-C", wt, "apply", "--3way", diff])
    if rc != 0:
        run(["git", "-C", "/repo", "worktree", "remove", "--force", wt])
        print("DOES-NOT-APPLY", name)
        sys.exit(3)
    scratch = tempfile.mkdtemp(prefix="benign-out-")
    env = dict(ENV, VERIF_OUT=scratch)
    results = {}
    try:
        rc, out = run(["go", "build", "./..."], cwd=wt)
        assert rc == 0, "does not build: " + out
        for p in props:
            t0 = time.time()
            rc, out = run(["/verif/bin/gosx", "check", "-prop", p, "-tier", tier, "-repo", wt, "-workers", workers], cwd="/verif", env=env)
            lines = out.strip().splitlines()
            results[p] = {"exit": rc, "summary": lines[-1][:300] if lines else "", "wall_s": round(time.time() - t0, 1)}
            if rc != 0:
                results[p]["detail"] = [l[:400] for l in lines if not l.startswith(p + " ")][:12]
            print(name, p, "exit", rc, flush=True)
    finally:
        run(["git", "-C", "/repo", "worktree", "remove", "--force", wt])
        shutil.rmtree(wt, ignore_errors=True)
        shutil.rmtree(scratch, ignore_errors=True)
    dst = os.path.join("/verif/seeded/benign", name)
    os.makedirs(dst, exist_ok=True)
    if os.path.abspath(diff) != os.path.join(dst, "change.diff"):
        shutil.copy(diff, os.path.join(dst, "change.diff"))
    meta = {}
    mj = diff[:-5] + ".json"
    if os.path.exists(mj):
        try:
            meta = json.load(open(mj))
        except Exception:
            pass
    # a re-run of some of the checks replaces their entries and keeps the others (older runs of the same change)
    old = {}
    prev = os.path.join(dst, "meta.json")
    if os.path.exists(prev):
        try:
            pm = json.load(open(prev))
            old = pm.get("checks", {})
            for k, v in pm.items():
                meta.setdefault(k, v)
        except Exception:
            pass
    old.update(results)
    meta["checks"] = dict(sorted(old.items()))
    meta["all_exit_0"] = all(r["exit"] == 0 for r in meta["checks"].values())
    json.dump(meta, open(os.path.join(dst, "meta.json"), "w"), indent=1)
    bad = [p for p, r in results.items() if r["exit"] != 0]
    print("QUIET" if not bad else "ALARM %s" % bad, name)


if __name__ == "__main__":
    main()
