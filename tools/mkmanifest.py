#!/usr/bin/env python3
"""Regenerates /verif/MANIFEST.json from the table below (kept next to the checks so it stays current)."""
import json, os

ENV = "GOFLAGS=-mod=mod GOPROXY=off GOSUMDB=off GOTOOLCHAIN=local"
ALL = ["C%02d" % i for i in range(1, 21)]

# property -> (level text, level note, design ref)
CLAIMED = {
 "C19": ("Bounded symbolic model checking of the real Get/Set/Add/Append/Count/First/Equals code (go/ssa interpreted, every branch and assertion decided by z3): all histories of up to 3 (quick) / 5 (thorough) operations over three tags (nil tag + two symbolic letters that may coincide) with symbolic 1-byte texts, and all pairs of lists of up to 2 (quick) / 3 (thorough) entries with pairwise distinct symbolic tags for the equality law. Within these bounds the verdict covers every value, not a sample; beyond them nothing is claimed.",
         "Trusted: go/ssa construction, the gosx interpreter (validated each run by replaying path models natively), z3. Histories longer than the bound, texts longer than one byte and tags longer than one letter are outside the claim.",
         "7 C19"),
}

CLAIMED["C17"] = ("Bounded symbolic model checking of ItemOrderTimestamp through the real time.Unix/UTC/In/After code: objects of seven vocabulary types (pointer and value forms) whose published/updated instants are fully symbolic (seconds from the zero time.Time up to 2^40, all nanoseconds, UTC or a fixed zone); the solver decides agreement with the lexicographic (sec,nsec) key, irreflexivity, asymmetry, transitivity and transitivity of incomparability on pairs/triples, nil handling, and that sort.Sort (interpreted) of 3 (quick) / 4 (thorough) such objects is newest-first for every initial order.",
         "Instants carry no monotonic reading (built as decoders build them). Beyond 4 sorted elements and outside the stated second range nothing is claimed.",
         "7 C17")
CLAIMED["C14"] = ("Bounded symbolic model checking of IRI.Equals / irisEqual / IRIs.Contains through the real net/url, path/filepath and strings code. IRIs are built from abstract components with symbolic letters (host letter with case, port, 0-2 path segments with case, 0-2 query pairs over [a-b]=[0-1]) plus a presentation (scheme variant, trailing slash, ./, x/../, //, fragment, query order); equivalence is known by construction and the solver decides that Equals agrees with it, is symmetric and reflexive, transitive on triples, and that IRIs.Contains agrees. Arbitrary byte strings up to 1x1 (quick) / 3x2 (thorough) bytes: reflexive, symmetric.",
         "Hosts are one letter + .ex, segments one letter; longer components, more than two segments/pairs, and arbitrary strings beyond the stated lengths are outside the claim. Map iteration order of url.Values is insertion order.",
         "7 C14")

CLAIMED["C13"] = ("Bounded symbolic model checking of Append/Contains/Count/Collection/Remove of all six collection kinds through the real ItemsEqual / IRI.Equals code: histories of 2-3 (quick) / 4-5 (thorough) operations chosen among Append, Contains, Remove over a pool of 2-3 items with symbolic pairwise-distinct ids in IRI/object/actor/activity shapes, compared after every step with an insertion-ordered reference set; plus the inductive step (arbitrary duplicate-free pre-state of up to 2 (quick) / 3 (thorough) members installed directly, one arbitrary operation), which extends the claim to histories of any length as far as the pre-state bound reaches.",
         "Ids are https://h.ex/<one symbolic letter>; an item of a given id has one shape. Remove is exercised through ToItemCollection (not for IRI lists, which have no in-place view). Longer ids and pre-states beyond the bound are outside the claim.",
         "7 C13")
CLAIMED["C15"] = ("Bounded symbolic model checking of IRIf / Split / CollectionPath.IRI / OfActor / Of / ValidCollectionIRI through the real net/url and path/filepath code: owners https://<symbolic alnum>.ex[:8<digit>] with 0-2 (quick) / 3 (thorough) path segments of two symbolic alnum characters, optionally a segment that is itself a collection name or a percent-escape %41..%49, with and without trailing slash, for all eight collection names; objects and actors with and without an explicit collection property (symbolic IRI).",
         "Owner equivalence is decided by string equality modulo a trailing slash or by IRI.Equals with scheme comparison (itself the subject of C14). Longer hosts/segments are outside the claim.",
         "7 C15")

CLAIMED["C09"] = ("Bounded symbolic model checking of ItemsEqual and the per-type Equals methods: reflexivity and copy-equality for every (type, field, value shape) cell generated from the struct definitions of the current tree (Object, Actor, Activity, Link in quick; all 14 types in thorough; shapes: IRI, object with/without id, link, actor, list, activity, 1-3 language values, instants, numbers) with symbolic id characters and texts; IRIs, item lists (incl. id-less members), value forms; the full nil matrix (10 nil-like kinds) against nil and non-nil in both argument orders; ids differing in host, path or query; types differing beyond case; and for every Object core property except mediaType/source and Activity's six relations, a copy whose property holds a different value (decided by an independent structural comparator) is unequal in both orders.",
         "One property populated at a time (plus id and type). 'Different value' for item-valued properties means different ids/hrefs inside the value. Values nested deeper than one embedded level are outside the claim.",
         "7 C09")

CLAIMED["C10"] = ("Bounded symbolic model checking of Recipients() of all 13 addressable types and of ItemCollectionDeduplication / removeFromAudience through the real IRI.Equals code: 3 (quick) / 4-5 (thorough) addressees whose id letter and letter case are symbolic (so 'same addressee' is decided by the solver), in five presentations (https, http, trailing slash, embedded actor, embedded object), distributed over to/cc/bto/bcc/audience/actor by choice, with nil entries and the public collection; compared with a reference de-duplication (first mention in scan order to, cc, bto, bcc, actor, audience; lists keep first mentions in order; nil entries untouched); Block activities: the blocked object is addressed nowhere afterwards and everybody else still is.",
         "Addressee ids are <scheme>://h.ex/<letter>[/]; embedded objects always carry an id (id-less ones are outside the property's domain). Nothing is asserted about the audience list after the call.",
         "7 C10")
CLAIMED["C16"] = ("Bounded symbolic model checking of FlattenProperties / Flatten*Properties / FlattenItemCollection / FlattenToIRI: for Activity, IntransitiveActivity, Question, Object and Actor, every single-item position (actor, object, target, result, origin, instrument, attributedTo, replies, likes, shares) x shape (IRI, object with id, object without id, link, actor, activity) with symbolic id characters; addressing lists of 2 (quick) / 3 (thorough) members in five shapes; duplicates. Asserted: objects with an id become exactly that id, IRIs/links/id-less objects stay, every other field (generated field-by-field comparator over the current struct definition) is unchanged, flattening twice equals once.",
         "Collections in single-item positions are outside the property ('non-collection object'). For duplicate members both element-wise and first-mention-kept results are accepted.",
         "7 C16")

CLAIMED["C11"] = ("Bounded symbolic model checking of Clean() of all 13 types that offer it and of CleanRecipients / ItemCollection.Clean: bto/bcc populated on the value, on an object embedded by pointer at each of the nine walked properties (for Activity also object, actor, target), directly or inside a list, and on an object embedded one level deeper (D=2), with symbolic ids; asserted after Clean(): the lists are empty along the walk, the bytes of the real MarshalJSON (interpreted) contain no bto/bcc member, every other field of the value and of the embedded objects equals its snapshot (generated field-by-field comparator); objects at unwalked positions (inReplyTo, location, url) are left exactly as they were.",
         "Depth 2 along the walk; the serialisation check is a search for the quoted member names in the produced bytes.",
         "7 C11")
CLAIMED["C18"] = ("Bounded symbolic model checking of CopyItemProperties and the per-type copy functions for Object, Actor and the four collection types: for every field of the current struct definition (generated) and each value shape, presence on `to` and `from` chosen independently (4 cases) with distinct symbolic values, plus everything populated on both sides; asserted field by field: id and type are from's, every field is its old value or from's, a field set in `to` and unset in `from` is kept, each listed merged property set in `from` has from's value, `from` equals its snapshot. Refusals (nil side, other id, other type, unsupported type) return an error and leave `to` equal to its snapshot; equivalent-but-different ids are accepted.",
         "One property at a time, or all at once; arbitrary subsets are outside the claim. Typed-nil sides are C20's subject.",
         "7 C18")
CLAIMED["C20"] = ("Exhaustive finite matrix explored by the symbolic executor: the untyped nil and a nil pointer of every vocabulary struct type found in the current source (15 kinds) x 64 helper entries (every exported function/method with an Item/LinkOrIRI parameter found in the current source is either exercised or listed as constructor/indirect - a coverage harness fails if a new one appears) at top level, as a member of a list handed to the list-aware helpers, and as a property of an otherwise valid activity/object. Asserted: no panic (Go run-time panics are detected by the interpreter with Go's rules, including the synthesised pointer-receiver wrappers), IsNil true, NotEmpty false, equal to nil and unequal to non-nil, callbacks receive nil or are not invoked, neutral results; any view larger than its allocation is an engine event.",
         "The package-level MarshalJSON(Item) goes through jsonld (reflection) and is exercised through the per-type MarshalJSON methods; GobEncode(Item) is driven directly (gob model).",
         "7 C20")

CLAIMED["C01"] = ("Bounded symbolic model checking of the JSON encoders and decoders (the real per-type MarshalJSON, UnmarshalJSON, fastjson, net/url, time and strconv code, interpreted): for all 14 vocabulary struct types and every field of the current struct definitions (generated), every value shape (IRI, object with/without id, link, actor, 2-element list, activity, one-element lists, 1-3 language values, three instants, three durations, symbolic small integers, floats incl. negative, strings) with symbolic id characters and two-byte symbolic texts, the decoded value has the same Go type and equals the encoded one field by field after the documented normal form; per-type UnmarshalJSON methods agree; thorough adds everything-populated values and depth-2 nesting.",
         "One populated property per value (plus id/type) in quick. Text is two lower-case letters (hostile text is C02/C06); ids are https://h.ex/<tag><symbolic alnum>. Numbers: integers 1..99 symbolic, floats and instants from stated finite sets. Nesting beyond depth 2 and arbitrary subsets of populated fields are outside the claim.",
         "7 C01")
CLAIMED["C02"] = ("Bounded symbolic model checking of everything the encoders write, against an independent strict RFC 8259 reader written in the harness (no duplicate member names, no raw control characters, strings decoded to bytes): 20 string-bearing positions (ids, IRIs in items/lists/embedded objects, types, media types, texts, language-map values, units, hrefLang, rel, key material, source) hold 0, 1 or 2 (thorough 3) completely unconstrained bytes; asserted: output is one valid JSON object, its member names are exactly the expected ones (nothing injected), the member sits under its term, is a JSON string and decodes to exactly the bytes held (for invalid UTF-8 the bytes or U+FFFD replacement). Every tagged field of every type is written under the term of its jsonld tag with the prescribed kind (booleans and numbers unquoted, instants parse as RFC 3339, durations as xsd:duration, multi-language values under termMap).",
         "Hostile strings of up to 2 (quick) / 3 (thorough) bytes; longer strings are outside the claim (the escaper is byte-local, but that is an argument, not something this check decides).",
         "7 C02")

CLAIMED["C03"] = ("Bounded symbolic model checking of the library's own gob code - gobEncodeItem / gobDecodeItem, every map<Type>Properties / unmap<Type>Properties, the per-type GobEncode/GobDecode and MarshalBinary/UnmarshalBinary - with encoding/gob replaced by a model (opaque injective codec with gob's wire-kind compatibility): the same (type, field, shape) cells as C01 generated from the current struct definitions, compared field by field with only the unset/empty normal form; instants with nanoseconds and a fixed zone, negative numbers and durations, top-level IRI, IRIs, item list and Link; per-type methods agree with the package functions.",
         "RELATIVE TO THE GOB MODEL: what is decided is names, guards, dispatch and shape sniffing in the package, not the gob wire format (encoding/gob is reflection-driven and not interpreted). The model's success matrix (decode succeeds iff wire kinds agree) was measured against real gob in the design spike and every completed path is replayed natively against real gob (traces_validated_against_impl).",
         "7 C03, 5")
CLAIMED["C06"] = ("Bounded symbolic model checking of both codecs on natural-language text: name, summary, content, preferredUsername and source content, as single untagged, single tagged and two-language values (text in first or second position), through the JSON encoder/decoder (real stringBytes, fastjson) and through the gob code (gob model), with 1 byte (full matrix) and 2 bytes (reduced matrix; full in thorough; 3 bytes reduced in thorough) of arbitrary valid UTF-8 (utf8.Valid interpreted as the assumption), a backslash followed by any ASCII byte inside other text, texts that are JSON themselves (numbers with symbolic digits, literals, arrays, objects, quoted strings), and fixed HTML / control / astral / escape-looking texts: the decoded text is byte-for-byte the encoded one, map tags and the other entry are preserved.",
         "Texts longer than the stated symbolic lengths are outside the claim. Gob half is relative to the gob model (see C03).",
         "7 C06")

CLAIMED["C04"] = ("Bounded symbolic model checking of every decoding entry point found in the current source (all UnmarshalJSON/UnmarshalText/GobDecode/UnmarshalBinary methods with a []byte parameter plus the package-level UnmarshalJSON and GobDecode, about 75): RAW - 0, 1 and 2 (thorough 3) completely unconstrained input bytes through the real fastjson parser and text unmarshalers (gob entry points: 0-1 bytes, 2 in thorough); SKEL - documents of 13 type families in which each term the decoders look up (harvested from the source) carries one of 21 values of unexpected kinds; HOLE - an unconstrained 1-2 (thorough 3) byte hole as the value of a term, as a member name and between members; DEEP - 40-fold nesting; GOB - valid streams carrying arbitrary small property maps, lists, scalars and pair lists at every GobDecode entry point. Asserted: no panic (interpreter detects run-time panics), every path terminates within the instruction budget, and whatever is returned can be inspected, compared and re-encoded in both codecs without panicking.",
         "Time and memory proportional to the input is decided only through the WORK proxy (values built per nesting depth) and the per-path instruction budget (a path that exceeded it would make the run inconclusive); there is no general cost model. Inputs longer than the stated number of free bytes outside the skeleton/hole families are outside the claim. Gob streams: relative to the gob model - real gob stream parsing is inside the stub; the hostile property maps travel in valid streams so every path is replayed against real gob natively. Formatting (%s and %v through fmt, interpreted from source over the reflect model) is part of the follow-up on every returned value.",
         "7 C04")
CLAIMED["C05"] = ("Bounded symbolic model checking of the JSON decoders against documents produced by an independent writer in the harness (terms taken from the jsonld tags of the current struct definitions): for every type and every tagged field, each value shape (IRI string, embedded object with/without id/type, link, actor, activity, arrays, one-element arrays, single embedded object for list properties; text as plain string or as a language map under termMap; numbers, booleans, instants, xsd durations), in three writer variants (canonical; one-member lists as the bare member / single values as one-element arrays; single texts as language maps); asserted: decoding yields the Go type the document names and exactly the model's properties (field by field, modulo the one-element-list normal form), then encode-decode yields the same value and the bytes no longer change. The 19 mock documents of the repository decode and reach a fixpoint.",
         "One property per document besides id/type; symbolic id characters and two-byte texts; mock documents are used as they are (no structure-preserving mutation). Same numeric sets as C01.",
         "7 C05")
CLAIMED["C07"] = ("Exhaustive over the finite matrix, explored by the symbolic executor: every constant of type ActivityVocabularyType found in the current source (the harness fails if one is missing from, or extra to, the vocabulary table transcribed from the ActivityStreams specification) x {registry, JSON top level, JSON nested in an item position, JSON nested in a list, gob top level, gob nested} x {hooks unset, hooks installed and delegating}: same concrete Go type everywhere, symbolic id and name preserved, type preserved; family tables (ObjectTypes, ActorTypes, ActivityTypes, IntransitiveActivityTypes, LinkTypes, CollectionTypes), IsObject/IsLink/IsCollection and the family's On* helper agree with the specification's family. Names outside the vocabulary: symbolic letter strings of length 1-5 (thorough 6-8) assumed different (ignoring case) from every constant yield an error, nothing or a plain Object.",
         "Gob contexts are relative to the gob model. Outside-vocabulary names are letters only.",
         "7 C07")
CLAIMED["C08"] = ("Two parts. Static, exact: every unsafe.Pointer-to-*T conversion of a *S found in the package's SSA (currently 20 distinct (function, S, T) sites) yields one solver query over the two gc/amd64 layouts (go/types Sizes): is there a byte offset below sizeof(T) outside S, or whose leaf (layout class + jsonld term, items and orderedItems identified) differs? Dynamic, bounded symbolic execution: all 13 To* helpers x 13 source types x pointer/value forms and five On* helpers, on values with every field populated: a conversion is refused with an error, or every field the two types share (by term) reads identical through the view and a write through a pointer view is seen by the original; the interpreter's memory model reports any view larger than its allocation, any access beyond it and any interface value whose itab belongs to another interface type (x.(T), type switch, == on a value stored through a view).",
         "Layouts are go/types' gc/amd64 sizes, not the compiler's own (they agree for these types: sizes were cross-checked in the design spike with unsafe.Sizeof). The runtime's checkptr is modelled (allocation-straddling rule), not run. One known finding is listed (ToOrderedCollectionPage on a CollectionPage), pinned by an existing test.",
         "7 C08")
CLAIMED["C12"] = ("Bounded symbolic execution with a write monitor: a value of every vocabulary type with every field populated (one symbolic id character, a text containing quote, backslash and a symbolic byte), item lists and IRI lists; vpFreeze() marks every object allocated so far and the package's variables read-only in the interpreter; then each of 17 read-only operations (MarshalJSON, GobEncode, ItemsEqual with itself and with a copy, IsNil, NotEmpty, the predicates, GetLink/GetType, DerefItem, OnObject/ToObject/OnActivity/OnCollectionIntf with read-only callbacks, ItemOrderTimestamp, Contains, decoding an unrelated document, natural-language accessors) runs twice: any store into frozen memory is a violation naming the writing function, and both invocations must answer the same. Race-freedom is the corollary: these operations write only memory they allocated themselves, so concurrent readers of one shared value cannot race and compute the sequential results.",
         "Interleavings are not explored: the claim is write-freedom on every path within the bound, from which race-freedom follows for the argument's heap and the package variables; synchronisation inside the standard library (fmt's pool, gob's type cache) is trusted. GobEncode is relative to the gob model.",
         "7 C12")

# additions made after the rounds of seeded changes (DESIGN.md section 11), appended to the level text
EXTRA = {
 "C01": " Also: every member of Endpoints, PublicKey and Source populated alone; links that carry an id; everything populated at once (quick tier too); bare embedded objects; texts with backslash sequences, quotes, markup, separators and JSON-looking content in every natural-language property of every type, single and inside two-language maps. Lists are quantified over members of distinct identity (JSON decoding de-duplicates list members by design).",
 "C02": " Also: hostile language tags at three map positions, next to an untagged or empty-tag entry; lists of 2 (thorough 3) entries drawn from eight kinds including entries that serialise to nothing (nil, nil pointer, empty IRI, empty object) in eight list-valued positions: valid JSON holding exactly the written entries in order.",
 "C03": " Also: members of the nested structs alone; lists with a repeated member and natural-language lists with a repeated tag or two untagged texts (gob keeps them member for member); everything populated at once.",
 "C04": " Also WORK: for a chain of 6 (thorough 10) objects nested through any one item-valued term of any family, the number of values the decoder requests from the type registry (a natively observable count) is at most three times the depth - a proxy for work proportional to the input that rules out re-decoding a term at every level. A native replay process that dies (stack overflow) is bisected so that the dying case is isolated and reported.",
 "C05": " Also: id-less documents bearing every type name of the vocabulary with one property, at top level and nested; a document with every property of its type; decode-encode-decode of escape-bearing texts.",
 "C06": " Also: source content without a media type and link names, in both codecs.",
 "C07": " Also: a value of every Go type with any one further property set (formerType, relationship, nested typed objects) keeps its Go type and type name through both codecs; documents that hold nothing but a type are values of that type at top level, nested and in lists.",
 "C08": " The dynamic part now drives all 13 On* helpers and OnCollectionIntf (what the callback receives is a view of the argument: reads agree, writes are seen by the original).",
 "C09": " Also: ids with repeated query keys (multisets); a change of one property in a fully populated value; a repeated text entry on one side.",
 "C10": "",
 "C11": " Also: an activity embedded at a walked position whose own actor/object carry bto/bcc.",
 "C12": " The values also hold lists of four members that no key sorts (a 'tidying' read is a write), language values with entries the encoders skip; sort.Slice/SliceStable are interpreted (the swapper from reflectlite is modelled).",
 "C13": " Also: pre-state of 3 in the quick tier, an arbitrary declared totalItems (Count is the number of members), and fully populated members of six types (membership goes through the library's equality).",
 "C14": " Also: an absolute URL against scheme-relative, host-less, scheme-only and opaque strings sharing its parts: symmetric, reflexive, membership agrees.",
 "C16": " Also: links that carry an id stay links; the same addressee in two lists; a fully populated base value stays otherwise unchanged.",
 "C17": " Also: every vocabulary type that has published/updated, populated through its own struct fields (generated from the struct definitions), with every other instant set to a far-future decoy.",
 "C18": " The two sides always carry different values of the property (different instants, durations, numbers, ids).",
 "C19": " Texts are drawn from an alphabet with a case pair and may be empty (the tag is present all the same).",
 "C20": " Also driven: the gob encoder (top level, property, list member), every On* helper over a list with a nil member, ToIRIs of list and pointer to list, ItemCollection.Recipients/Remove/Append, typed-nil collection properties.",
}

NOT_YET = {}

def main():
    checks = []
    for pid in ALL:
        if pid not in CLAIMED:
            continue
        text, note, ref = CLAIMED[pid]
        checks.append({
            "property_id": pid,
            "quick_cmd": f"/verif/bin/gosx check -prop {pid} -tier quick",
            "thorough_cmd": f"/verif/bin/gosx check -prop {pid} -tier thorough",
            "evidence_file": f"/verif/evidence/{pid}.json",
            "replay_cmd_template": "/verif/bin/gosx replay {path}",
            "engine": "gosx",
            "level_claimed": {"category": "model_checking", "text": text + EXTRA.get(pid, ""), "design_ref": "DESIGN.md section " + ref},
            "level_note": note,
            "technique": "bounded symbolic execution of the real code from go/ssa; branches and assertions decided by an SMT solver (z3 5.1.0; verdicts cross-checked against z3 4.8.12 and cvc5 with tools/crosscheck.py); counterexamples replayed natively",
        })
    na = []
    for pid in ALL:
        if pid in CLAIMED:
            continue
        na.append({"property_id": pid, "reason": NOT_YET.get(pid, "check not built yet in this session (planned: same symbolic-execution engine, see DESIGN.md section 7)")})
    m = {
        "version": 1,
        "setup_cmd": f"cd /verif/engine && {ENV} go build -o /verif/bin/gosx . && /verif/bin/gosx selftest",
        "hooks": {
            "guard": "verif",
            "enable": "none needed: harnesses are injected with go/packages overlays (engine) and `go test -overlay` (native replay); no source hooks exist in /repo",
            "baseline_off_cmd": "cd /repo && go test -mod=mod -json -vet=off -count=1 -timeout 25m ./...",
            "source_commits": [],
            "add_only": True,
        },
        "engines": [{
            "name": "gosx",
            "path": "/verif/engine",
            "serves_properties": sorted(CLAIMED),
            "kind_free_text": "symbolic executor for Go built on go/ssa: interprets the real package and its dependencies from source, forks on input-dependent branches, decides feasibility and assertions with z3 over bit-vectors, replays models natively",
        }],
        "checks": checks,
        "not_applicable": na,
        "notes": "Exit codes of every check: 0 held within the stated bounds (KNOWN-FINDING lines allowed), 1 VIOLATION reproduced natively, 2 inconclusive (limit, solver unknown, unmodelled function, engine/native disagreement). See DESIGN.md.",
    }
    with open("/verif/MANIFEST.json", "w") as f:
        json.dump(m, f, indent=1)
        f.write("\n")

if __name__ == "__main__":
    main()
