#!/usr/bin/env python3
"""Confirms a seeded change and runs the property's check against it.

usage: seedtest.py <seed-dir> <name> [--props C01,C05] [--tier quick] [--scratch]

<seed-dir> holds patch.diff, demo_test.go, meta.json (property). Steps:
 1. in a scratch worktree of /repo: apply the patch, build, run the full test suite (must equal the
    baseline: only the two always-failing tests fail), run the demonstration (must fail), undo the
    patch, run the demonstration again (must pass); remove the worktree.
 2. apply the patch to /repo, run the check(s), undo the patch (git checkout -- .).
 3. store everything under /verif/seeded/<name>/ with the outcome in meta.json.
"""
import json, os, shutil, subprocess, sys, tempfile, time

ENV = dict(os.environ, GOFLAGS="-mod=mod", GOPROXY="off", GOSUMDB="off", GOTOOLCHAIN="local")
BASE_FAIL = {"TestDoNotDeliverToActor", "TestDoNotDeliverBlockToObject"}


def run(cmd, cwd=None, timeout=1800):
    p = subprocess.run(cmd, cwd=cwd, env=ENV, capture_output=True, text=True, timeout=timeout)
    return p.returncode, p.stdout + p.stderr


def subprocess_run_env(cmd, env):
    p = subprocess.run(cmd, cwd="/verif", env=env, capture_output=True, text=True, timeout=7200)
    return p.returncode, p.stdout + p.stderr


def failing_tests(wt):
    rc, out = run(["go", "test", "-json", "-vet=off", "-count=1", "./..."], cwd=wt)
    fails, passes, builderr = set(), 0, False
    for line in out.splitlines():
        try:
            e = json.loads(line)
        except Exception:
            if "build failed" in line or "cannot" in line:
                builderr = True
            continue
        if e.get("Test") and e.get("Action") == "fail":
            fails.add(e["Test"].split("/")[0])
        if e.get("Test") and e.get("Action") == "pass":
            passes += 1
        if e.get("Action") == "fail" and not e.get("Test") and "build failed" in (e.get("Output") or ""):
            builderr = True
    return fails, passes, builderr


def main():
    seed, name = sys.argv[1], sys.argv[2]
    props, tier = None, "quick"
    for i, a in enumerate(sys.argv):
        if a == "--props":
            props = sys.argv[i + 1].split(",")
        if a == "--tier":
            tier = sys.argv[i + 1]
    meta = json.load(open(os.path.join(seed, "meta.json")))
    if props is None:
        props = [meta["property"]]
    patch = os.path.join(seed, "patch.diff")
    demo = os.path.join(seed, "demo_test.go")
    ran = []
    # 1. scratch confirmation
    wt = tempfile.mkdtemp(prefix="seedwt-")
    os.rmdir(wt)
    rc, out = run(["git", "-C", "/repo", "worktree", "add", "-q", "--detach", wt, "HEAD"])
    assert rc == 0, out
    ok = True
    try:
        if os.path.exists("/repo/go.sum"):
            shutil.copy("/repo/go.sum", wt)
        rc, out = run(["git", "apply", patch], cwd=wt)
        ran.append("git apply patch.diff (scratch worktree): rc=%d" % rc)
        if rc != 0:
            print("PATCH DOES NOT APPLY:", out)
            ok = False
        else:
            fails, passes, builderr = failing_tests(wt)
            ran.append("go test ./... with the change: %d pass, failing=%s" % (passes, sorted(fails)))
            if builderr or fails != BASE_FAIL:
                print("TEST SUITE CHANGED:", sorted(fails), "builderr", builderr)
                ok = False
            shutil.copy(demo, os.path.join(wt, "zz_seed_demo_test.go"))
            rc1, out1 = run(["go", "test", "-vet=off", "-count=1", "-run", "TestSeedDemo", "."], cwd=wt)
            ran.append("demonstration with the change: rc=%d (must fail)" % rc1)
            run(["git", "apply", "-R", patch], cwd=wt)
            rc2, out2 = run(["go", "test", "-vet=off", "-count=1", "-run", "TestSeedDemo", "."], cwd=wt)
            ran.append("demonstration without the change: rc=%d (must pass)" % rc2)
            if rc1 == 0 or rc2 != 0:
                print("DEMONSTRATION NOT CONFIRMED: with=%d without=%d" % (rc1, rc2))
                print(out1[-1500:], out2[-1500:])
                ok = False
    finally:
        run(["git", "-C", "/repo", "worktree", "remove", "--force", wt])
        shutil.rmtree(wt, ignore_errors=True)
    if not ok:
        print("SEED REJECTED", name)
        sys.exit(3)
    # 2. run the checks against /repo with the change (or, with --scratch, against a second scratch
    #    worktree given with -repo, so that several seeds can be evaluated side by side)
    results = {}
    scratch = "--scratch" in sys.argv
    extra, env2 = [], ENV
    if scratch:
        wt2 = tempfile.mkdtemp(prefix="seedwt2-")
        os.rmdir(wt2)
        rc, out = run(["git", "-C", "/repo", "worktree", "add", "-q", "--detach", wt2, "HEAD"])
        assert rc == 0, out
        if os.path.exists("/repo/go.sum"):
            shutil.copy("/repo/go.sum", wt2)
        rc, out = run(["git", "-C", wt2, "apply", patch])
        assert rc == 0, out
        outdir = tempfile.mkdtemp(prefix="seed-out-")
        extra = ["-repo", wt2, "-workers", "8"]
        env2 = dict(ENV, VERIF_OUT=outdir)
    else:
        rc, out = run(["git", "-C", "/repo", "status", "--porcelain", "--untracked-files=no"])
        assert out.strip() == "", "/repo has uncommitted changes: " + out
        rc, out = run(["git", "-C", "/repo", "apply", patch])
        assert rc == 0, out
    try:
        for p in props:
            t0 = time.time()
            rc, out = subprocess_run_env(["/verif/bin/gosx", "check", "-prop", p, "-tier", tier] + extra, env2)
            vio = [l for l in out.splitlines() if l.startswith("VIOLATION")]
            detail = [l.strip()[:300] for l in out.splitlines() if l.startswith("  vp") or l.startswith("  static")]
            results[p] = {"exit": rc, "violations": len(vio), "first": detail[:5], "summary": out.strip().splitlines()[-1][:300], "wall_s": round(time.time() - t0, 1)}
            ran.append("gosx check -prop %s -tier %s against %s with the change: exit %d, %d VIOLATION lines" % (p, tier, "a scratch worktree (-repo)" if scratch else "/repo", rc, len(vio)))
    finally:
        if scratch:
            run(["git", "-C", "/repo", "worktree", "remove", "--force", wt2])
            shutil.rmtree(wt2, ignore_errors=True)
            shutil.rmtree(outdir, ignore_errors=True)
        else:
            run(["git", "-C", "/repo", "checkout", "--", "."])
    # restore evidence of the unchanged tree for the touched properties is the caller's job (runall)
    # 3. store
    dst = os.path.join("/verif/seeded", name)
    os.makedirs(dst, exist_ok=True)
    shutil.copy(patch, os.path.join(dst, "patch.diff"))
    shutil.copy(demo, os.path.join(dst, "demo_test.go"))
    meta["what_i_ran"] = ran
    meta["detection"] = results
    meta["detected"] = any(r["exit"] == 1 for r in results.values())
    json.dump(meta, open(os.path.join(dst, "meta.json"), "w"), indent=1)
    for p, r in results.items():
        print(name, p, "exit", r["exit"], "violations", r["violations"], "|", (r["first"] or [r["summary"]])[0][:200])
    print("DETECTED" if meta["detected"] else "MISSED", name)


if __name__ == "__main__":
    main()
