#!/bin/sh
# runs the quick (or $1) tier of every claimed check and prints one line per check
tier=${1:-quick}
cap=1500; [ "$tier" = thorough ] && cap=11000
for p in $(python3 -c "import json;print(' '.join(c['property_id'] for c in json.load(open('/verif/MANIFEST.json'))['checks']))"); do
  out=$(timeout $cap /verif/bin/gosx check -prop $p -tier $tier 2>&1); rc=$?
  echo "$out" | tail -1 | cut -c1-400
  [ $rc -ne 0 ] && echo "$out" | grep -v "^C[0-9][0-9] " | head -8 | cut -c1-300
done
