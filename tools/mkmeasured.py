#!/usr/bin/env python3
"""Rewrites the measured-cost table of DESIGN.md section 7 from the evidence files (between the
MEASURED-TABLE markers). Thorough figures come from /verif/measured_thorough.json, written by hand
from the thorough runs (the evidence file of a property holds its last run only)."""
import json, os, re

rows = ["| id | tier of the last run | harnesses | paths | transitions (domain / solver decided) | solver queries | solver time | native replays | wall |", "|---|---|---|---|---|---|---|---|---|"]
for i in range(1, 21):
    p = "C%02d" % i
    f = "/verif/evidence/%s.json" % p
    if not os.path.exists(f):
        continue
    e = json.load(open(f))
    c = e["coverage"]
    rows.append("| %s | %s | %d | %d | %d (%d / %d) | %d | %.0f s | %d | %.0f s |" % (
        p, e.get("tier", ""), len(c.get("harnesses") or []), c.get("states", 0), c.get("transitions", 0),
        c.get("transitions_domain_decided", 0), c.get("transitions_solver_decided", 0), c.get("queries", 0),
        c.get("solver_time_s", 0), c.get("traces_validated_against_impl", 0), e.get("wall_s", 0)))
tf = "/verif/measured_thorough.json"
extra = ""
if os.path.exists(tf):
    t = json.load(open(tf))
    extra = "\n\nThorough tier, last full pass (%s; the rows of C02, C04, C06, C12, C14, C15 and C16 are from the re-run after the last\nharness additions, made while other checks were running on the machine, so their wall times are on the high side):\n\n| id | paths | solver queries | wall | exit |\n|---|---|---|---|---|\n" % t.get("when", "")
    for p, r in sorted(t["runs"].items()):
        extra += "| %s | %s | %s | %s | %s |\n" % (p, r.get("paths"), r.get("queries"), r.get("wall"), r.get("exit"))
block = "<!-- MEASURED-TABLE -->\n" + "\n".join(rows) + extra.rstrip("\n") + "\n<!-- /MEASURED-TABLE -->"
s = open("/verif/DESIGN.md").read()
if "<!-- MEASURED-TABLE -->" in s:
    s = re.sub(r"<!-- MEASURED-TABLE -->.*?<!-- /MEASURED-TABLE -->", lambda m: block, s, flags=re.S)
else:
    s = s.replace("MEASURED-TABLE", block, 1)
open("/verif/DESIGN.md", "w").write(s)
print("\n".join(rows))
