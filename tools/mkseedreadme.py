#!/usr/bin/env python3
"""Regenerates seeded/README.md from the meta.json files; notes are kept in seeded/notes.json."""
import json, os, re

D = "/verif/seeded"
notes_path = os.path.join(D, "notes.json")
notes = json.load(open(notes_path)) if os.path.exists(notes_path) else {}
if not notes and os.path.exists(os.path.join(D, "README.md")):
    for line in open(os.path.join(D, "README.md")):
        if line.startswith("| seed-"):
            cells = [c.strip() for c in re.split(r"(?<!\\)\|", line.strip().strip("|"))]
            if cells[-1]:
                notes[cells[0]] = cells[-1]


def key(n):
    m = re.match(r"seed-C(\d+)-(\d+)", n)
    return (int(m.group(1)), int(m.group(2)))


def esc(s):
    return str(s).replace("|", "\\|").replace("\n", " ")


rows, caught, na, missed = [], 0, 0, 0
for n in sorted((d for d in os.listdir(D) if d.startswith("seed-")), key=key):
    m = json.load(open(os.path.join(D, n, "meta.json")))
    p = m["property"]
    det = m.get("detection", {}).get(p, {})
    first = det.get("first", [])
    first = first[0].split(" [")[0] if first else ""
    if m.get("detected"):
        c = "yes"
        caught += 1
    elif m.get("outside_property"):
        c = "n/a"
        na += 1
    else:
        c = "NO"
        missed += 1
    rows.append("| %s | %s | %s | %s | %s | %s | %s |" % (n, p, esc(m.get("summary", ""))[:240], esc(m.get("needs", ""))[:160], c, esc(first), esc(notes.get(n, ""))))
json.dump(notes, open(notes_path, "w"), indent=1, sort_keys=True)
head = """# Seeded changes

Changes that break a property while the library still compiles and its own test suite is unchanged, produced by
independent sub-agents that saw only the property text and a scratch worktree. Each directory holds `patch.diff`,
`demo_test.go` (fails with the change, passes without) and `meta.json` (what was run, the check's outcome).
Evaluated with `tools/seedtest.py`; the table is the state after the strengthening described in DESIGN.md section 11
(regenerate with `tools/mkseedreadme.py`; the notes live in `notes.json`).
`benign/` holds behaviour-preserving changes (refactorings) on which every check must stay quiet (`tools/benigntest.py`).

| seed | property | change | needs | caught | first reporting assertion | note |
|---|---|---|---|---|---|---|
"""
tail = "\n\n%d seeds: %d caught, %d judged not to break the property as stated (n/a), %d missed.\n" % (len(rows), caught, na, missed)
open(os.path.join(D, "README.md"), "w").write(head + "\n".join(rows) + tail)
print(tail.strip())
