package main

import (
	"fmt"
	"go/types"
	"sync"

	"golang.org/x/tools/go/ssa"
	"golang.org/x/tools/go/types/typeutil"
)

// Value is one of:
//   *Term            integers, bools, uintptr
//   float64, float32 concrete floats
//   complex128       concrete complex
//   Str              string
//   Slice            slice
//   Ptr              pointer / unsafe.Pointer
//   StructV          struct
//   ArrayV           array
//   Iface            interface
//   *MapObj          map
//   FuncV            func value
//   Tuple            multiple results
//   *IterV           range iterator
//   nil              only transiently (uninitialised register)
type Value interface{}

// Obj identifies one allocation.
type Obj struct {
	id     int
	size   int64 // bytes, for unsafe widening checks; 0 = unknown
	epoch  int32 // path epoch at allocation; < current => pre-path (journaled)
	frozen bool
	what   string
}

type Str struct {
	b   []Value
	obj *Obj
}

type Slice struct {
	a   []Value // Go slice: len/cap/aliasing come for free
	obj *Obj    // nil for a nil slice
}

type Ptr struct {
	cell *Value
	obj  *Obj
	off  int64
	// symbolic element pointer: &sarr[sidx]
	sarr []Value
	sidx *Term
	// elems: the element run starting at cell when the pointer addresses an array/slice element
	elems []Value
}

type StructV struct {
	t *TInfo
	f []Value
}

type ArrayV struct {
	a []Value
}

type Iface struct {
	t *TInfo // nil => nil interface
	v Value
	// itab: the static interface type this value was converted to (the runtime keeps one itab per
	// (interface type, dynamic type) pair and compares itab pointers in x.(T), type switches and ==).
	// nil = unknown/any. Only unsafe views can make it differ from the static type of the slot.
	itab *TInfo
}

type FuncV struct {
	fn  *ssa.Function
	env []Value
	bi  *ssa.Builtin
	// native: a function value implemented by the engine (the swapper reflectlite hands to sort.Slice)
	native func(it *Interp, fr *frame, args []Value) Value
	// bound method closures are ssa functions already
}

type Tuple []Value

// RTypeV is a reflect.Type (the payload behind *reflect.rtype).
type RTypeV struct {
	ti *TInfo
}

type IterV struct {
	str   Str
	isStr bool
	id    int
	pos   int
	m     *MapObj
	order []int
}

type mapEntry struct {
	k, v    Value
	deleted bool
	conc    bool
}

type MapObj struct {
	obj     *Obj
	entries []mapEntry
	idx     map[string]int // concrete-key index
	n       int
	kt, vt  *TInfo
	hasSym  bool
}

// ---- type descriptors

type Kind uint8

const (
	KInvalid Kind = iota
	KBool
	KInt // all integer kinds incl. uintptr
	KFloat
	KComplex
	KString
	KUnsafePointer
	KPtr
	KSlice
	KArray
	KStruct
	KIface
	KMap
	KFunc
	KChan
	KTuple
)

type TInfo struct {
	t       types.Type
	id      int
	kind    Kind
	w       uint8 // int width
	signed  bool
	f32     bool
	elem    *TInfo   // ptr/slice/array/map value
	key     *TInfo   // map key
	fields  []*TInfo // struct
	offsets []int64
	size    int64
	alen    int64
	name    string
	mu      sync.Mutex
	meths   map[string]*ssa.Function
	isEmptyIface bool
	under   *TInfo // for struct kinds: TInfo of the underlying struct type
}

type TypeTable struct {
	mu    sync.Mutex
	m     typeutil.Map
	sizes types.Sizes
	n     int
	prog  *ssa.Program
}

func NewTypeTable(prog *ssa.Program) *TypeTable {
	tt := &TypeTable{sizes: types.SizesFor("gc", "amd64"), prog: prog}
	tt.m.SetHasher(typeutil.MakeHasher())
	return tt
}

func (tt *TypeTable) Of(t types.Type) *TInfo {
	tt.mu.Lock()
	defer tt.mu.Unlock()
	return tt.of(t)
}

func (tt *TypeTable) of(t types.Type) *TInfo {
	t = types.Unalias(t)
	if v := tt.m.At(t); v != nil {
		return v.(*TInfo)
	}
	tt.n++
	ti := &TInfo{t: t, id: tt.n, name: t.String()}
	tt.m.Set(t, ti)
	switch u := t.Underlying().(type) {
	case *types.Basic:
		switch {
		case u.Info()&types.IsBoolean != 0:
			ti.kind = KBool
		case u.Info()&types.IsInteger != 0:
			ti.kind = KInt
			ti.signed = u.Info()&types.IsUnsigned == 0
			switch u.Kind() {
			case types.Int8, types.Uint8:
				ti.w = 8
			case types.Int16, types.Uint16:
				ti.w = 16
			case types.Int32, types.Uint32:
				ti.w = 32
			default:
				ti.w = 64
			}
		case u.Info()&types.IsFloat != 0:
			ti.kind = KFloat
			ti.f32 = u.Kind() == types.Float32
		case u.Info()&types.IsComplex != 0:
			ti.kind = KComplex
		case u.Info()&types.IsString != 0:
			ti.kind = KString
		case u.Kind() == types.UnsafePointer:
			ti.kind = KUnsafePointer
		case u.Kind() == types.UntypedNil:
			ti.kind = KInvalid
		default:
			ti.kind = KInvalid
		}
	case *types.Pointer:
		ti.kind = KPtr
		ti.elem = tt.of(u.Elem())
	case *types.Slice:
		ti.kind = KSlice
		ti.elem = tt.of(u.Elem())
	case *types.Array:
		ti.kind = KArray
		ti.elem = tt.of(u.Elem())
		ti.alen = u.Len()
	case *types.Struct:
		ti.kind = KStruct
		n := u.NumFields()
		ti.fields = make([]*TInfo, n)
		vars := make([]*types.Var, n)
		for i := 0; i < n; i++ {
			vars[i] = u.Field(i)
			ti.fields[i] = tt.of(u.Field(i).Type())
		}
		ti.offsets = tt.sizes.Offsetsof(vars)
		if _, isStruct := t.(*types.Struct); isStruct {
			ti.under = ti
		} else {
			ti.under = tt.of(u)
		}
	case *types.Interface:
		ti.kind = KIface
		ti.isEmptyIface = u.NumMethods() == 0
	case *types.Map:
		ti.kind = KMap
		ti.key = tt.of(u.Key())
		ti.elem = tt.of(u.Elem())
	case *types.Signature:
		ti.kind = KFunc
	case *types.Chan:
		ti.kind = KChan
	case *types.Tuple:
		ti.kind = KTuple
		for i := 0; i < u.Len(); i++ {
			ti.fields = append(ti.fields, tt.of(u.At(i).Type()))
		}
	case *types.TypeParam:
		ti.kind = KInvalid
	default:
		panic(fmt.Sprintf("TypeTable: unhandled type %T %s", u, t))
	}
	func() {
		defer func() { recover() }()
		if ti.kind != KTuple && ti.kind != KInvalid {
			ti.size = tt.sizes.Sizeof(t)
		}
	}()
	return ti
}

// method looks up the implementation of a method for a concrete (non-interface) type.
func (tt *TypeTable) method(ti *TInfo, m *types.Func) *ssa.Function {
	key := m.Id()
	ti.mu.Lock()
	if ti.meths == nil {
		ti.meths = map[string]*ssa.Function{}
	}
	if f, ok := ti.meths[key]; ok {
		ti.mu.Unlock()
		return f
	}
	ti.mu.Unlock()
	var f *ssa.Function
	sel := tt.prog.MethodSets.MethodSet(ti.t).Lookup(m.Pkg(), m.Name())
	if sel != nil {
		f = tt.prog.MethodValue(sel)
	}
	ti.mu.Lock()
	ti.meths[key] = f
	ti.mu.Unlock()
	return f
}

// ---- zero values and copying

func (it *Interp) zero(ti *TInfo) Value {
	switch ti.kind {
	case KInvalid:
		return nil
	case KBool:
		return tFalse
	case KInt:
		return mkConst(ti.w, 0)
	case KFloat:
		if ti.f32 {
			return float32(0)
		}
		return float64(0)
	case KComplex:
		return complex128(0)
	case KString:
		return Str{}
	case KUnsafePointer, KPtr:
		return Ptr{}
	case KSlice:
		return Slice{}
	case KArray:
		a := make([]Value, ti.alen)
		for i := range a {
			a[i] = it.zero(ti.elem)
		}
		return ArrayV{a}
	case KStruct:
		f := make([]Value, len(ti.fields))
		for i, ft := range ti.fields {
			f[i] = it.zero(ft)
		}
		return StructV{ti.under, f}
	case KIface:
		return Iface{}
	case KMap:
		return (*MapObj)(nil)
	case KFunc:
		return FuncV{}
	case KChan:
		return Ptr{}
	case KTuple:
		t := make(Tuple, len(ti.fields))
		for i, ft := range ti.fields {
			t[i] = it.zero(ft)
		}
		return t
	}
	panic(fmt.Sprintf("zero: unhandled type %s", ti.name))
}

// copyVal makes a value-semantics copy (structs and arrays are deep-copied).
func copyVal(v Value) Value {
	switch v := v.(type) {
	case StructV:
		f := make([]Value, len(v.f))
		for i, x := range v.f {
			f[i] = copyVal(x)
		}
		return StructV{v.t, f}
	case ArrayV:
		a := make([]Value, len(v.a))
		for i, x := range v.a {
			a[i] = copyVal(x)
		}
		return ArrayV{a}
	}
	return v
}

func (s Str) concrete() (string, bool) {
	buf := make([]byte, len(s.b))
	for i, c := range s.b {
		t := c.(*Term)
		if t.op != OpConst {
			return "", false
		}
		buf[i] = byte(t.c)
	}
	return string(buf), true
}

func mkStr(s string) Str {
	if len(s) == 0 {
		return Str{}
	}
	b := make([]Value, len(s))
	for i := 0; i < len(s); i++ {
		b[i] = constBytes[s[i]]
	}
	return Str{b: b, obj: constStrObj}
}

var constStrObj = &Obj{id: -1, what: "string literal", epoch: -1}

func (it *Interp) newObj(size int64, what string) *Obj {
	it.objSeq++
	return &Obj{id: it.objSeq, size: size, epoch: it.epoch, what: what}
}
