package main

// C08, static part: every unsafe.Pointer -> *T conversion in the package whose operand was a *S.
// For each site the two struct layouts are compared through the solver: is there a byte offset
// below sizeof(T) that lies outside S, or whose leaf differs between the two layouts?

import (
	"fmt"
	"go/types"
	"reflect"
	"sort"
	"strings"

	"golang.org/x/tools/go/ssa"
)

type castSite struct {
	Fn   string
	From *TInfo
	To   *TInfo
	Pos  string
}

func (p *Program) findCastSites() []castSite {
	seen := map[string]bool{}
	var sites []castSite
	var fns []*ssa.Function
	for _, m := range p.mainPkg.Members {
		if fn, ok := m.(*ssa.Function); ok {
			fns = append(fns, fn)
		}
		if t, ok := m.(*ssa.Type); ok {
			for _, ty := range []types.Type{t.Type(), types.NewPointer(t.Type())} {
				ms := p.prog.MethodSets.MethodSet(ty)
				for i := 0; i < ms.Len(); i++ {
					if f := p.prog.MethodValue(ms.At(i)); f != nil && f.Pkg == p.mainPkg {
						fns = append(fns, f)
					}
				}
			}
		}
	}
	var walk func(fn *ssa.Function)
	visited := map[*ssa.Function]bool{}
	walk = func(fn *ssa.Function) {
		if visited[fn] || fn.Blocks == nil || strings.Contains(fn.Name(), "vp") && strings.HasPrefix(fn.Name(), "vp") {
			return
		}
		visited[fn] = true
		for _, af := range fn.AnonFuncs {
			walk(af)
		}
		for _, b := range fn.Blocks {
			for _, ins := range b.Instrs {
				cv, ok := ins.(*ssa.Convert)
				if !ok {
					continue
				}
				tp, ok := cv.Type().Underlying().(*types.Pointer)
				if !ok {
					continue
				}
				if bt, ok := cv.X.Type().Underlying().(*types.Basic); !ok || bt.Kind() != types.UnsafePointer {
					continue
				}
				inner, ok := cv.X.(*ssa.Convert)
				if !ok {
					continue
				}
				sp, ok := inner.X.Type().Underlying().(*types.Pointer)
				if !ok {
					continue
				}
				from, to := p.tt.Of(sp.Elem()), p.tt.Of(tp.Elem())
				if from.kind != KStruct || to.kind != KStruct {
					continue
				}
				key := fn.String() + "/" + from.name + "->" + to.name
				if seen[key] {
					continue
				}
				seen[key] = true
				sites = append(sites, castSite{Fn: fn.Name(), From: from, To: to, Pos: p.fset.Position(cv.Pos()).String()})
			}
		}
	}
	for _, fn := range fns {
		walk(fn)
	}
	sort.Slice(sites, func(i, j int) bool {
		return sites[i].Fn+sites[i].From.name+sites[i].To.name < sites[j].Fn+sites[j].From.name+sites[j].To.name
	})
	return sites
}

// leafClass: a small integer naming the layout class of the leaf at a field (for the SMT encoding).
type leafTable struct {
	ids map[string]int
}

func (lt *leafTable) id(s string) int {
	if v, ok := lt.ids[s]; ok {
		return v
	}
	lt.ids[s] = len(lt.ids) + 1
	return lt.ids[s]
}

func leafName(ti *TInfo) string {
	switch ti.kind {
	case KIface:
		it := ti.t.Underlying().(*types.Interface)
		var ms []string
		for i := 0; i < it.NumMethods(); i++ {
			ms = append(ms, it.Method(i).Id()+types.TypeString(it.Method(i).Type(), nil))
		}
		sort.Strings(ms)
		// the itab identity matters as well (see the itab note in DESIGN): distinct named interface types differ
		return "iface:" + ti.name + "{" + strings.Join(ms, ";") + "}"
	case KStruct:
		return "struct:" + types.TypeString(ti.t.Underlying(), nil)
	}
	return fmt.Sprintf("%d:%s", ti.kind, types.TypeString(ti.t.Underlying(), nil))
}

// layoutFn builds, as an SMT-LIB ite chain over a 16-bit offset, the function offset -> leaf id
// (0 outside the struct).
func layoutFn(name string, ti *TInfo, lt *leafTable) string {
	var sb strings.Builder
	fmt.Fprintf(&sb, "(define-fun %s ((o (_ BitVec 16))) (_ BitVec 16) ", name)
	n := 0
	for i, f := range ti.fields {
		lo := ti.offsets[i]
		hi := lo + f.size
		if f.size == 0 {
			continue
		}
		fmt.Fprintf(&sb, "(ite (and (bvule #x%04x o) (bvult o #x%04x)) #x%04x ", lo, hi, lt.id(leafName(f))*64+i)
		n++
	}
	sb.WriteString("#x0000")
	sb.WriteString(strings.Repeat(")", n))
	sb.WriteString(")\n")
	return sb.String()
}

// checkCastSites decides every site with the solver; returns violations keyed like harness results.
func (p *Program) checkCastSites(solverName string, timeoutMs int) ([]Violation, int, []string, error) {
	sites := p.findCastSites()
	s, err := NewSolver(solverName, timeoutMs)
	if err != nil {
		return nil, 0, nil, err
	}
	defer s.Close()
	var vios []Violation
	var descr []string
	for _, site := range sites {
		lt := &leafTable{ids: map[string]int{}}
		s.send("(push 1)\n")
		// leaf ids must be comparable across the two structs: field index is dropped for the comparison
		s.send(layoutFnCmp("layS", site.From, lt))
		s.send(layoutFnCmp("layT", site.To, lt))
		s.send("(declare-const off (_ BitVec 16))\n")
		s.send(fmt.Sprintf("(assert (bvult off #x%04x))\n", site.To.size))
		s.send(fmt.Sprintf("(assert (or (bvule #x%04x off) (not (= (layS off) (layT off)))))\n", site.From.size))
		r := s.Check()
		id := fmt.Sprintf("cast/%s/%s->%s", site.Fn, shortType(site.From.name), shortType(site.To.name))
		descr = append(descr, id)
		switch r {
		case Sat:
			s.send("(get-value (off))\n")
			out := s.readSexp()
			detail := fmt.Sprintf("*%s (%d bytes) reinterpreted as *%s (%d bytes) at %s: layouts differ or the view is larger than the value, witness %s", site.From.name, site.From.size, site.To.name, site.To.size, site.Pos, strings.TrimSpace(out))
			vios = append(vios, Violation{Harness: "static_casts", ID: id, Kind: "static", Detail: detail})
		case Unknown:
			s.send("(pop 1)\n")
			return vios, len(sites), descr, fmt.Errorf("solver unknown on cast site %s", id)
		}
		s.send("(pop 1)\n")
	}
	return vios, len(sites), descr, nil
}

func shortType(n string) string {
	if i := strings.LastIndex(n, "."); i >= 0 {
		return n[i+1:]
	}
	return n
}

func layoutFnCmp(name string, ti *TInfo, lt *leafTable) string {
	var sb strings.Builder
	fmt.Fprintf(&sb, "(define-fun %s ((o (_ BitVec 16))) (_ BitVec 16) ", name)
	n := 0
	for i, f := range ti.fields {
		lo := ti.offsets[i]
		hi := lo + f.size
		if f.size == 0 {
			continue
		}
		// leaf class (layout class + the property's term) and the offset inside the leaf distinguish positions
		term := ""
		if st, ok := ti.t.Underlying().(*types.Struct); ok {
			term = strings.Split(reflect.StructTag(st.Tag(i)).Get("jsonld"), ",")[0]
			if term == "orderedItems" {
				term = "items" // the one intended name difference between ordered and unordered collections
			}
		}
		fmt.Fprintf(&sb, "(ite (and (bvule #x%04x o) (bvult o #x%04x)) (bvadd #x%04x (bvsub o #x%04x)) ", lo, hi, lt.id(leafName(f)+"@"+term)*1024, lo)
		n++
	}
	sb.WriteString("#x0000")
	sb.WriteString(strings.Repeat(")", n))
	sb.WriteString(")\n")
	return sb.String()
}
