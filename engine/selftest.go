package main

import (
	"fmt"
	"os"
	"os/exec"
	"regexp"
	"strconv"
	"strings"
)

// cmdSelftest checks the parts of the trusted base that can be checked cheaply at setup.
func cmdSelftest() {
	fail := false
	// 1. solver round trip: sat, unsat, model values
	x := mkSym(8, 0)
	y := mkSym(64, 1)
	for _, sn := range []string{defaultSolver, "z3"} {
		s, err := NewSolver(sn, 5000)
		if err != nil {
			fmt.Println("selftest: cannot start", sn, ":", err)
			os.Exit(1)
		}
		s.Push()
		s.Assert(mkBin(OpEq, mkBin(OpAdd, x, mkConst(8, 250)), mkConst(8, 3)))
		s.Assert(mkBin(OpEq, mkBin(OpMul, y, mkConst(64, 3)), mkConst(64, 21)))
		if r := s.Check(); r != Sat {
			fmt.Println("selftest:", sn, "expected sat, got", r)
			fail = true
		} else {
			vals, err := s.Values(map[int]uint8{0: 8, 1: 64})
			if err != nil || vals[0] != 9 || (vals[1]*3) != 21 {
				fmt.Println("selftest:", sn, "bad model", vals, err)
				fail = true
			}
		}
		if r := s.CheckWith(mkBin(OpUlt, x, mkConst(8, 9))); r != Unsat {
			fmt.Println("selftest:", sn, "expected unsat, got", r)
			fail = true
		}
		s.Pop()
		if len(s.Errors) > 0 {
			fmt.Println("selftest:", sn, "solver errors", s.Errors)
			fail = true
		}
		s.Close()
	}
	// 2. term evaluation agrees with constant folding on a sample of operators
	env := &evalEnv{gen: newEvalGen(), get: func(id int, w uint8) uint64 { return 0xF3 }}
	for _, op := range []Op{OpAdd, OpSub, OpMul, OpUDiv, OpSDiv, OpURem, OpSRem, OpAnd, OpOr, OpXor, OpShl, OpLShr, OpAShr, OpEq, OpUlt, OpSlt, OpUle, OpSle} {
		for _, c := range []uint64{0, 1, 2, 7, 0x80, 0xF3, 0xFF} {
			sym := mkBin(op, x, mkConst(8, c))
			conc := mkBin(op, mkConst(8, 0xF3), mkConst(8, c))
			if sym.eval(env) != conc.c {
				fmt.Printf("selftest: eval mismatch op %s c=%d: %d vs %d\n", opNames[op], c, sym.eval(env), conc.c)
				fail = true
			}
		}
	}
	// 3. size classes used for append growth equal the runtime's table
	out, err := exec.Command("go", "env", "GOROOT").Output()
	if err == nil {
		data, err := os.ReadFile(strings.TrimSpace(string(out)) + "/src/runtime/sizeclasses.go")
		if err == nil {
			m := regexp.MustCompile(`class_to_size = \[_NumSizeClasses\]uint16\{([^}]*)\}`).FindSubmatch(data)
			if m != nil {
				var got []int64
				for _, f := range strings.Split(string(m[1]), ",") {
					f = strings.TrimSpace(f)
					if f == "" {
						continue
					}
					n, _ := strconv.ParseInt(f, 10, 64)
					got = append(got, n)
				}
				if fmt.Sprint(got) != fmt.Sprint(sizeClasses) {
					fmt.Println("selftest: runtime size classes differ from the engine's table")
					fail = true
				}
			}
		}
	}
	if fail {
		os.Exit(1)
	}
	fmt.Println("selftest ok")
}
