package main

import (
	"os"
	"fmt"
	"go/constant"
	"go/token"
	"go/types"
	"strings"
	"sync"

	"golang.org/x/tools/go/ssa"
)

// ---- shared, read-only after load

type Program struct {
	prog    *ssa.Program
	tt      *TypeTable
	mu      sync.Mutex
	cfuncs  map[*ssa.Function]*cfunc
	initPkgs []*ssa.Package // packages whose init is interpreted, in dependency order
	interpPkg map[string]bool
	fset    *token.FileSet
	mainPkg *ssa.Package
	utf8Dec *ssa.Function
}

type opKind uint8

const (
	okReg opKind = iota
	okConst
	okGlobal
	okNilValue
)

type operand struct {
	kind opKind
	reg  int32
	v    Value
	g    *ssa.Global
}

type cinstr struct {
	ins  ssa.Instruction
	ops  []operand
	dst  int32
	t    *TInfo
	t2   *TInfo
	aux  interface{}
	idxSigned bool
}

type cblock struct {
	instrs []cinstr
	index  int
	succs  []int
	phis   int // number of leading phi instrs
}

type cfunc struct {
	fn     *ssa.Function
	blocks []*cblock
	nregs  int
	name   string
	intrinsic intrinsicFn
	recoverBlock int
	pdOnce sync.Once
	ipdom  []int
	effectful bool
}

type intrinsicFn func(it *Interp, fr *frame, args []Value) Value

func (p *Program) utf8Decode() *ssa.Function {
	p.mu.Lock()
	defer p.mu.Unlock()
	if p.utf8Dec == nil {
		pkg := p.prog.ImportedPackage("unicode/utf8")
		if pkg == nil {
			panic("unicode/utf8 not loaded")
		}
		p.utf8Dec = pkg.Func("DecodeRuneInString")
	}
	return p.utf8Dec
}

func (p *Program) compile(fn *ssa.Function) *cfunc {
	p.mu.Lock()
	if cf, ok := p.cfuncs[fn]; ok {
		p.mu.Unlock()
		return cf
	}
	p.mu.Unlock()
	cf := p.doCompile(fn)
	p.mu.Lock()
	if old, ok := p.cfuncs[fn]; ok {
		cf = old
	} else {
		p.cfuncs[fn] = cf
	}
	p.mu.Unlock()
	return cf
}

func funcName(fn *ssa.Function) string {
	if fn.Origin() != nil {
		// instantiated generic: use origin's name for intrinsic lookup
		return fn.Origin().String()
	}
	return fn.String()
}

func (p *Program) doCompile(fn *ssa.Function) *cfunc {
	cf := &cfunc{fn: fn, name: funcName(fn), recoverBlock: -1}
	if in, ok := intrinsics[cf.name]; ok {
		cf.intrinsic = in
		cf.effectful = strings.HasPrefix(cf.name, mainPkgPath+".vp") && cf.name != mainPkgPath+".vpSymbolic"
		return cf
	}
	if fn.Blocks == nil {
		return cf
	}
	regs := map[ssa.Value]int32{}
	n := int32(0)
	for _, pa := range fn.Params {
		regs[pa] = n
		n++
	}
	for _, fv := range fn.FreeVars {
		regs[fv] = n
		n++
	}
	for _, b := range fn.Blocks {
		for _, ins := range b.Instrs {
			if v, ok := ins.(ssa.Value); ok {
				regs[v] = n
				n++
			}
		}
	}
	cf.nregs = int(n)
	mkop := func(v ssa.Value) operand {
		switch v := v.(type) {
		case nil:
			return operand{kind: okNilValue}
		case *ssa.Const:
			return operand{kind: okConst, v: p.constValue(v)}
		case *ssa.Global:
			return operand{kind: okGlobal, g: v}
		case *ssa.Function:
			return operand{kind: okConst, v: FuncV{fn: v}}
		case *ssa.Builtin:
			return operand{kind: okConst, v: FuncV{bi: v}}
		}
		r, ok := regs[v]
		if !ok {
			panic(fmt.Sprintf("compile %s: no register for %s (%T)", fn, v.Name(), v))
		}
		return operand{kind: okReg, reg: r}
	}
	for _, b := range fn.Blocks {
		cb := &cblock{index: b.Index}
		for _, s := range b.Succs {
			cb.succs = append(cb.succs, s.Index)
		}
		for _, ins := range b.Instrs {
			ci := cinstr{ins: ins, dst: -1}
			if v, ok := ins.(ssa.Value); ok {
				ci.dst = regs[v]
			}
			var rands []*ssa.Value
			rands = ins.Operands(rands)
			for _, r := range rands {
				ci.ops = append(ci.ops, mkop(*r))
			}
			switch ins := ins.(type) {
			case *ssa.Phi:
				cb.phis++
				ci.t = p.tt.Of(ins.Type())
			case *ssa.Alloc:
				ci.t = p.tt.Of(ins.Type().Underlying().(*types.Pointer).Elem())
			case *ssa.BinOp:
				ci.t = p.tt.Of(ins.X.Type())
				ci.t2 = p.tt.Of(ins.Y.Type())
			case *ssa.UnOp:
				ci.t = p.tt.Of(ins.Type())
				ci.t2 = p.tt.Of(ins.X.Type())
			case *ssa.Convert:
				ci.t = p.tt.Of(ins.Type())
				ci.t2 = p.tt.Of(ins.X.Type())
			case *ssa.ChangeType:
				ci.t = p.tt.Of(ins.Type())
			case *ssa.MakeInterface:
				ci.t = p.tt.Of(ins.X.Type())
				ci.t2 = p.tt.Of(ins.Type())
			case *ssa.TypeAssert:
				ci.t = p.tt.Of(ins.AssertedType)
				ci.t2 = p.tt.Of(ins.X.Type())
			case *ssa.FieldAddr:
				ci.t = p.tt.Of(ins.X.Type().Underlying().(*types.Pointer).Elem())
			case *ssa.Field:
				ci.t = p.tt.Of(ins.X.Type())
			case *ssa.IndexAddr:
				ci.idxSigned = p.tt.Of(ins.Index.Type()).signed
				ci.t2 = p.tt.Of(ins.X.Type())
				ci.t = p.tt.Of(ins.Type().Underlying().(*types.Pointer).Elem())
			case *ssa.Index:
				ci.idxSigned = p.tt.Of(ins.Index.Type()).signed
				ci.t = p.tt.Of(ins.Type())
				ci.t2 = p.tt.Of(ins.X.Type())
			case *ssa.Lookup:
				if ix := p.tt.Of(ins.Index.Type()); ix.kind == KInt {
					ci.idxSigned = ix.signed
				}
				ci.t = p.tt.Of(ins.Type())
				ci.t2 = p.tt.Of(ins.X.Type())
			case *ssa.MakeMap:
				ci.t = p.tt.Of(ins.Type())
			case *ssa.MakeSlice:
				ci.t = p.tt.Of(ins.Type())
			case *ssa.Slice:
				ci.t = p.tt.Of(ins.Type())
				ci.t2 = p.tt.Of(ins.X.Type())
			case *ssa.SliceToArrayPointer:
				ci.t = p.tt.Of(ins.Type())
			case *ssa.Range:
				ci.t2 = p.tt.Of(ins.X.Type())
			case *ssa.Next:
				ci.t = p.tt.Of(ins.Type())
			case *ssa.Store:
				ci.t = p.tt.Of(ins.Val.Type())
			case *ssa.MapUpdate:
				ci.t = p.tt.Of(ins.Map.Type())
			case *ssa.Call:
				ci.t = p.tt.Of(ins.Type())
				ci.aux = p.callInfo(&ins.Call)
			case *ssa.Defer:
				ci.aux = p.callInfo(&ins.Call)
			case *ssa.Go:
				ci.aux = p.callInfo(&ins.Call)
			case *ssa.If:
				ci.aux = &mergeSite{}
			case *ssa.ChangeInterface:
				ci.t = p.tt.Of(ins.Type())
			case *ssa.Extract:
			case *ssa.MakeClosure:
			}
			cb.instrs = append(cb.instrs, ci)
		}
		cf.blocks = append(cf.blocks, cb)
	}
	if fn.Recover != nil {
		cf.recoverBlock = fn.Recover.Index
	}
	return cf
}

type callInfo struct {
	invoke bool
	method *types.Func
	argTs  []*TInfo
	recvT  *TInfo
}

func (p *Program) callInfo(c *ssa.CallCommon) *callInfo {
	ci := &callInfo{}
	if c.IsInvoke() {
		ci.invoke = true
		ci.method = c.Method
	}
	return ci
}

func (p *Program) constValue(c *ssa.Const) Value {
	ti := p.tt.Of(c.Type())
	if c.Value == nil {
		// zero value of the type
		return zeroStatic(ti)
	}
	switch ti.kind {
	case KBool:
		return mkBool(constant.BoolVal(c.Value))
	case KInt:
		if ti.signed {
			return mkConst(ti.w, uint64(c.Int64()))
		}
		return mkConst(ti.w, c.Uint64())
	case KFloat:
		f := c.Float64()
		if ti.f32 {
			return float32(f)
		}
		return f
	case KComplex:
		return c.Complex128()
	case KString:
		if c.Value.Kind() == constant.String {
			return mkStr(constant.StringVal(c.Value))
		}
		return mkStr(string(rune(c.Int64())))
	case KUnsafePointer, KPtr:
		return Ptr{}
	case KIface:
		// typed constant in interface position should not occur (MakeInterface is explicit)
		return Iface{}
	}
	panic(fmt.Sprintf("constValue: %s : %s", c, ti.name))
}

// zeroStatic is zero() without an interpreter (for constants).
func zeroStatic(ti *TInfo) Value {
	var it *Interp
	return it.zero(ti)
}

// ---- per-worker interpreter

type journalEntry struct {
	cell *Value
	old  Value
	m    *MapObj
	snap []mapEntry
	idx  map[string]int
	n    int
}

type deferred struct {
	fv   FuncV
	args []Value
	ins  ssa.Instruction
	invokeRecv bool
}

type frame struct {
	cf        *cfunc
	env       []Value
	caller    *frame
	block     int // -1 when returned
	prev      int
	defers    []deferred
	panicking bool
	panicVal  *goPanic
	result    Value
	pos       token.Pos
	skipPhis  bool
}

type goPanic struct {
	val   Value // Iface
	fatal bool  // unrecoverable (stack overflow, ...)
	msg   string
	pos   string
}

type pathAbort struct {
	kind   string // "infeasible", "limit", "unmodelled", "done"
	detail string
}

type Interp struct {
	p       *Program
	globals map[*ssa.Global]Ptr
	epoch   int32
	objSeq  int
	journal []journalEntry
	mapSnap map[*MapObj]bool
	depth   int
	steps   int64
	maxSteps int64
	ps      *PathState
	w       *Worker
	inInit  bool
	curFrame *frame
	funcsEntered map[string]bool
	frozenPre []*Obj
	initSteps int64
	gobW, gobR map[*Value]Iface
	gobBlobs  []gobBlob
	gobHostile bool
	curCallee *ssa.Function
	spec      int
	specBase  int
	specSteps int
	noMerge   bool
	initWarn map[string]bool
}

func NewInterp(p *Program) *Interp {
	it := &Interp{gobW: map[*Value]Iface{}, gobR: map[*Value]Iface{}, noMerge: os.Getenv("GOSX_NOMERGE") != "", p: p, globals: map[*ssa.Global]Ptr{}, mapSnap: map[*MapObj]bool{}, maxSteps: 20_000_000, funcsEntered: map[string]bool{}}
	return it
}

func (it *Interp) global(g *ssa.Global) Ptr {
	if p, ok := it.globals[g]; ok {
		return p
	}
	ti := it.p.tt.Of(g.Type().Underlying().(*types.Pointer).Elem())
	cell := new(Value)
	*cell = it.zero(ti)
	p := Ptr{cell: cell, obj: &Obj{id: -2, size: ti.size, epoch: -1, what: "global " + g.String()}}
	it.globals[g] = p
	return p
}

func (it *Interp) get(fr *frame, o *operand) Value {
	switch o.kind {
	case okReg:
		return fr.env[o.reg]
	case okConst:
		return o.v
	case okGlobal:
		return it.global(o.g)
	}
	return nil
}

func (it *Interp) abort(kind, detail string) {
	if it.spec > 0 {
		panic(specFail{"abort " + kind})
	}
	panic(&pathAbort{kind, detail})
}

func (it *Interp) posString(fr *frame) string {
	for f := fr; f != nil; f = f.caller {
		if f.pos.IsValid() {
			ps := it.p.fset.Position(f.pos)
			fn := ps.Filename
			if i := strings.LastIndex(fn, "/"); i >= 0 {
				fn = fn[i+1:]
			}
			return fmt.Sprintf("%s:%d", fn, ps.Line)
		}
	}
	return "?"
}

func (it *Interp) stackString(fr *frame) string {
	var sb strings.Builder
	n := 0
	for f := fr; f != nil && n < 12; f = f.caller {
		fmt.Fprintf(&sb, "%s", f.cf.name)
		if f.pos.IsValid() {
			ps := it.p.fset.Position(f.pos)
			fn := ps.Filename
			if i := strings.LastIndex(fn, "/"); i >= 0 {
				fn = fn[i+1:]
			}
			fmt.Fprintf(&sb, "(%s:%d)", fn, ps.Line)
		}
		sb.WriteString(" <- ")
		n++
	}
	return sb.String()
}

func (it *Interp) goPanicf(fr *frame, format string, args ...interface{}) {
	if it.spec > 0 {
		panic(specFail{"runtime panic"})
	}
	msg := fmt.Sprintf(format, args...)
	panic(&goPanic{val: it.runtimeErrorValue(msg), msg: msg, pos: it.stackString(fr)})
}

func (it *Interp) runtimeErrorValue(msg string) Value {
	return Iface{t: it.p.tt.Of(types.Typ[types.String]), v: mkStr("runtime error: " + msg)}
}

const maxDepth = 400

// call invokes fn with args (receiver first) and closure env.
func (it *Interp) call(caller *frame, fv FuncV, args []Value) Value {
	if fv.native != nil {
		return fv.native(it, caller, args)
	}
	if fv.fn == nil {
		if fv.bi != nil {
			return it.callBuiltin(caller, fv.bi, args, nil)
		}
		it.goPanicf(caller, "invalid memory address or nil pointer dereference (nil func call)")
	}
	cf := it.p.compile(fv.fn)
	if it.inInit && fv.fn.Synthetic == "package initializer" && fv.fn.Pkg != nil && !it.p.interpPkg[fv.fn.Pkg.Pkg.Path()] {
		return nil
	}
	if cf.intrinsic != nil {
		if it.spec > 0 && cf.effectful {
			panic(specFail{"harness primitive"})
		}
		it.curCallee = fv.fn
		return cf.intrinsic(it, caller, args)
	}
	if cf.blocks == nil {
		it.abort("unmodelled", "no body: "+cf.name+" at "+it.stackString(caller))
	}
	if it.depth > maxDepth {
		panic(&goPanic{fatal: true, msg: "stack overflow (call depth > 400)", pos: it.stackString(caller)})
	}
	if !it.inInit && it.funcsEntered != nil {
		if _, ok := it.funcsEntered[cf.name]; !ok {
			it.funcsEntered[cf.name] = true
		}
	}
	fr := &frame{cf: cf, env: make([]Value, cf.nregs), caller: caller}
	if debugCalls {
		fmt.Fprintf(os.Stderr, "call %s args=%d env=%d nregs=%d params=%d free=%d\n", cf.name, len(args), len(fv.env), cf.nregs, len(fv.fn.Params), len(fv.fn.FreeVars))
	}
	n := copy(fr.env, args)
	copy(fr.env[n:], fv.env)
	it.depth++
	for fr.block >= 0 {
		it.runFrame(fr)
	}
	it.depth--
	return fr.result
}

func (it *Interp) runFrame(fr *frame) {
	defer func() {
		if fr.block < 0 {
			return
		}
		r := recover()
		gp, ok := r.(*goPanic)
		if !ok || gp.fatal {
			panic(r)
		}
		fr.panicking = true
		fr.panicVal = gp
		it.runDefers(fr)
		// recovered: continue at the Recover block, or return zero results
		if fr.cf.recoverBlock >= 0 {
			fr.prev = fr.block
			fr.block = fr.cf.recoverBlock
			fr.skipPhis = false
		} else {
			fr.block = -1
			fr.result = it.zeroResults(fr.cf.fn)
		}
	}()
	for {
		cb := fr.cf.blocks[fr.block]
		next, skip := it.execBlock(fr, cb, fr.skipPhis)
		if next < 0 {
			fr.block = -1
			return
		}
		fr.prev = fr.block
		fr.block = next
		fr.skipPhis = skip
	}
}

func (it *Interp) zeroResults(fn *ssa.Function) Value {
	res := fn.Signature.Results()
	switch res.Len() {
	case 0:
		return nil
	case 1:
		return it.zero(it.p.tt.Of(res.At(0).Type()))
	}
	t := make(Tuple, res.Len())
	for i := range t {
		t[i] = it.zero(it.p.tt.Of(res.At(i).Type()))
	}
	return t
}

func (it *Interp) runDefers(fr *frame) {
	for len(fr.defers) > 0 {
		d := fr.defers[len(fr.defers)-1]
		fr.defers = fr.defers[:len(fr.defers)-1]
		it.runDefer(fr, d)
	}
	if fr.panicking {
		panic(fr.panicVal)
	}
}

func (it *Interp) runDefer(fr *frame, d deferred) {
	ok := false
	depth := it.depth
	defer func() {
		if !ok {
			r := recover()
			gp, isGo := r.(*goPanic)
			if !isGo || gp.fatal {
				panic(r)
			}
			it.depth = depth
			fr.panicking = true
			fr.panicVal = gp
		}
	}()
	if d.fv.bi != nil {
		it.callBuiltin(fr, d.fv.bi, d.args, nil)
	} else {
		it.call(fr, d.fv, d.args)
	}
	ok = true
}

// execBlock runs the instructions of one block and returns the next block index (-1 = return).
func (it *Interp) execBlock(fr *frame, cb *cblock, skipPhis bool) (int, bool) {
	// phis read their inputs simultaneously
	if cb.phis > 0 && !skipPhis {
		// find predecessor edge index
		ssab := fr.cf.fn.Blocks[cb.index]
		edge := -1
		for i, p := range ssab.Preds {
			if p.Index == fr.prev {
				edge = i
				break
			}
		}
		if edge < 0 {
			panic("phi: no incoming edge")
		}
		var tmp [8]Value
		vals := tmp[:0]
		for i := 0; i < cb.phis; i++ {
			ci := &cb.instrs[i]
			vals = append(vals, it.get(fr, &ci.ops[edge]))
		}
		for i := 0; i < cb.phis; i++ {
			fr.env[cb.instrs[i].dst] = vals[i]
		}
	}
	for i := cb.phis; i < len(cb.instrs); i++ {
		ci := &cb.instrs[i]
		it.steps++
		if it.spec > 0 {
			it.specSteps++
			if it.specSteps > specBudget {
				panic(specFail{"budget"})
			}
		}
		if it.steps > it.maxSteps {
			it.abort("limit", fmt.Sprintf("instruction budget %d exceeded at %s", it.maxSteps, it.stackString(fr)))
		}
		if p := ci.ins.Pos(); p.IsValid() {
			fr.pos = p
		}
		switch ins := ci.ins.(type) {
		case *ssa.DebugRef:
		case *ssa.Alloc:
			cell := new(Value)
			*cell = it.zero(ci.t)
			fr.env[ci.dst] = Ptr{cell: cell, obj: it.newObj(ci.t.size, "alloc")}
		case *ssa.UnOp:
			fr.env[ci.dst] = it.unop(fr, ci, ins, it.get(fr, &ci.ops[0]))
		case *ssa.BinOp:
			fr.env[ci.dst] = it.binop(fr, ins.Op, ci.t, ci.t2, it.get(fr, &ci.ops[0]), it.get(fr, &ci.ops[1]))
		case *ssa.Call:
			fr.env[ci.dst] = it.doCall(fr, ci, &ins.Call)
		case *ssa.ChangeInterface:
			x := it.get(fr, &ci.ops[0]).(Iface)
			if x.t != nil {
				x.itab = itabOf(ci.t)
			}
			fr.env[ci.dst] = x
		case *ssa.ChangeType:
			v := it.get(fr, &ci.ops[0])
			if x, isIface := v.(Iface); isIface && x.t != nil && ci.t.kind == KIface {
				// conversion between distinct named interface types builds a new itab
				x.itab = itabOf(ci.t)
				v = x
			}
			fr.env[ci.dst] = v
		case *ssa.Convert:
			fr.env[ci.dst] = it.convert(fr, ci.t2, ci.t, it.get(fr, &ci.ops[0]))
		case *ssa.Extract:
			fr.env[ci.dst] = it.get(fr, &ci.ops[0]).(Tuple)[ins.Index]
		case *ssa.Field:
			sv := it.get(fr, &ci.ops[0]).(StructV)
			fr.env[ci.dst] = copyVal(sv.f[ins.Field])
		case *ssa.FieldAddr:
			p := it.get(fr, &ci.ops[0]).(Ptr)
			fr.env[ci.dst] = it.fieldAddr(fr, p, ci.t, ins.Field)
		case *ssa.IndexAddr:
			fr.env[ci.dst] = it.indexAddr(fr, ci, it.get(fr, &ci.ops[0]), it.get(fr, &ci.ops[1]).(*Term))
		case *ssa.Index:
			fr.env[ci.dst] = it.index(fr, ci, it.get(fr, &ci.ops[0]), it.get(fr, &ci.ops[1]).(*Term))
		case *ssa.Lookup:
			fr.env[ci.dst] = it.lookup(fr, ci, ins, it.get(fr, &ci.ops[0]), it.get(fr, &ci.ops[1]))
		case *ssa.MakeClosure:
			env := make([]Value, len(ci.ops)-1)
			for j := range env {
				env[j] = it.get(fr, &ci.ops[j+1])
			}
			fr.env[ci.dst] = FuncV{fn: ins.Fn.(*ssa.Function), env: env}
		case *ssa.MakeInterface:
			fr.env[ci.dst] = Iface{t: ci.t, v: it.get(fr, &ci.ops[0]), itab: itabOf(ci.t2)}
		case *ssa.MakeMap:
			fr.env[ci.dst] = &MapObj{obj: it.newObj(8, "map"), idx: map[string]int{}, kt: ci.t.key, vt: ci.t.elem}
		case *ssa.MakeSlice:
			ln := it.concreteInt(fr, it.get(fr, &ci.ops[0]).(*Term), "make len")
			cp := it.concreteInt(fr, it.get(fr, &ci.ops[1]).(*Term), "make cap")
			if ln < 0 || cp < ln || cp > 1<<24 {
				it.goPanicf(fr, "makeslice: len out of range")
			}
			a := make([]Value, ln, cp)
			full := a[:cp]
			for j := range full {
				full[j] = it.zero(ci.t.elem)
			}
			fr.env[ci.dst] = Slice{a: a, obj: it.newObj(cp*ci.t.elem.size, "makeslice")}
		case *ssa.MapUpdate:
			m := it.get(fr, &ci.ops[0]).(*MapObj)
			it.mapUpdate(fr, m, it.get(fr, &ci.ops[1]), it.get(fr, &ci.ops[2]))
		case *ssa.Range:
			fr.env[ci.dst] = it.rangeIter(fr, it.get(fr, &ci.ops[0]))
		case *ssa.Next:
			fr.env[ci.dst] = it.next(fr, ins, it.get(fr, &ci.ops[0]).(*IterV), ci.t)
		case *ssa.Slice:
			fr.env[ci.dst] = it.slice(fr, ci, ins)
		case *ssa.SliceToArrayPointer:
			s := it.get(fr, &ci.ops[0]).(Slice)
			n := ci.t.elem.alen
			if int64(len(s.a)) < n {
				it.goPanicf(fr, "cannot convert slice with length %d to array or pointer to array with length %d", len(s.a), n)
			}
			if s.obj == nil {
				fr.env[ci.dst] = Ptr{}
			} else {
				cell := new(Value)
				*cell = ArrayV{a: s.a[:n:n]}
				fr.env[ci.dst] = Ptr{cell: cell, obj: s.obj}
			}
		case *ssa.Store:
			p, isPtr := it.get(fr, &ci.ops[0]).(Ptr)
			if !isPtr {
				panic(fmt.Sprintf("store through %T in %s: %s (operand kind %d reg %d)", it.get(fr, &ci.ops[0]), fr.cf.name, ins, ci.ops[0].kind, ci.ops[0].reg))
			}
			it.store(fr, p, it.get(fr, &ci.ops[1]), ci.t)
		case *ssa.TypeAssert:
			fr.env[ci.dst] = it.typeAssert(fr, ins, ci.t, ci.t2, it.get(fr, &ci.ops[0]).(Iface))
		case *ssa.Phi:
			panic("phi in the middle of a block")
		case *ssa.If:
			c := it.get(fr, &ci.ops[0]).(*Term)
			return it.doIf(fr, cb, ci, c)
		case *ssa.Jump:
			return cb.succs[0], false
		case *ssa.Return:
			switch len(ci.ops) {
			case 0:
				fr.result = nil
			case 1:
				fr.result = it.get(fr, &ci.ops[0])
			default:
				t := make(Tuple, len(ci.ops))
				for j := range t {
					t[j] = it.get(fr, &ci.ops[j])
				}
				fr.result = t
			}
			return -1, false
		case *ssa.RunDefers:
			if it.spec > 0 && len(fr.defers) > 0 {
				panic(specFail{"defers"})
			}
			it.runDefers(fr)
		case *ssa.Panic:
			if it.spec > 0 {
				panic(specFail{"panic"})
			}
			v := it.get(fr, &ci.ops[0])
			panic(&goPanic{val: v, msg: it.describePanic(v), pos: it.stackString(fr)})
		case *ssa.Defer:
			if it.spec > 0 {
				panic(specFail{"defer"})
			}
			info := ci.aux.(*callInfo)
			fv, args := it.prepareCall(fr, ci, &ins.Call, info)
			fr.defers = append(fr.defers, deferred{fv: fv, args: args, ins: ins})
		case *ssa.Go, *ssa.Select, *ssa.Send, *ssa.MakeChan:
			it.abort("unmodelled", fmt.Sprintf("concurrency instruction %T at %s", ins, it.stackString(fr)))
		default:
			it.abort("unmodelled", fmt.Sprintf("instruction %T at %s", ins, it.stackString(fr)))
		}
	}
	panic("block fell through")
}

func (it *Interp) describePanic(v Value) string {
	if i, ok := v.(Iface); ok {
		if i.t == nil {
			return "panic(nil)"
		}
		if s, ok := i.v.(Str); ok {
			if c, ok := s.concrete(); ok {
				return "panic: " + c
			}
			return "panic: <symbolic string>"
		}
		return "panic: value of type " + i.t.name
	}
	return "panic"
}

func (it *Interp) prepareCall(fr *frame, ci *cinstr, c *ssa.CallCommon, info *callInfo) (FuncV, []Value) {
	if info.invoke {
		recv := it.get(fr, &ci.ops[0]).(Iface)
		if recv.t == nil {
			it.goPanicf(fr, "invalid memory address or nil pointer dereference (method %s on nil interface)", info.method.Name())
		}
		fn := it.p.tt.method(recv.t, info.method)
		if fn == nil {
			it.abort("unmodelled", fmt.Sprintf("no method %s for %s", info.method.Name(), recv.t.name))
		}
		args := make([]Value, 1+len(c.Args))
		args[0] = recv.v
		for j := 1; j < len(args); j++ {
			args[j] = it.get(fr, &ci.ops[j])
		}
		return FuncV{fn: fn}, args
	}
	fv, ok := it.get(fr, &ci.ops[0]).(FuncV)
	if !ok {
		panic(fmt.Sprintf("call of non-function %T at %s", it.get(fr, &ci.ops[0]), it.stackString(fr)))
	}
	args := make([]Value, len(c.Args)) // (a Defer has a trailing DeferStack operand)
	for j := range args {
		args[j] = it.get(fr, &ci.ops[j+1])
	}
	return fv, args
}

func (it *Interp) doCall(fr *frame, ci *cinstr, c *ssa.CallCommon) (res Value) {
	info := ci.aux.(*callInfo)
	if it.inInit {
		// lenient initialisation: a call that cannot be interpreted yields the zero value
		depth := it.depth
		defer func() {
			if r := recover(); r != nil {
				var msg string
				switch r := r.(type) {
				case *pathAbort:
					msg = r.kind + ": " + r.detail
				case *goPanic:
					msg = "panic: " + r.msg + " @ " + r.pos
				default:
					msg = fmt.Sprintf("engine: %v", r)
				}
				it.depth = depth
				if it.initWarn == nil {
					it.initWarn = map[string]bool{}
				}
				key := c.String()
				if !it.initWarn[key] {
					it.initWarn[key] = true
					if it.w != nil && it.w.id == 0 && it.w.cfg.Verbose {
						fmt.Fprintf(os.Stderr, "init: %s -> zero (%s)\n", key, msg)
					}
				}
				res = it.zero(ci.t)
			}
		}()
	}
	fv, args := it.prepareCall(fr, ci, c, info)
	if fv.bi != nil {
		return it.callBuiltin(fr, fv.bi, args, c)
	}
	return it.call(fr, fv, args)
}

// ---- memory

func (it *Interp) noteWrite(fr *frame, p Ptr) {
	if it.spec > 0 && (p.obj == nil || p.obj.id <= it.specBase) {
		panic(specFail{"store to outer memory"})
	}
	if p.obj == nil {
		return
	}
	if p.obj.frozen {
		fn := "?"
		if fr != nil {
			fn = fr.cf.fn.Name()
		}
		it.event(fr, "write-to-frozen/in-"+fn, p.obj.what)
	}
	if p.obj.epoch < it.epoch && !it.inInit {
		it.journal = append(it.journal, journalEntry{cell: p.cell, old: *p.cell})
	}
}

func (it *Interp) store(fr *frame, p Ptr, v Value, ti *TInfo) {
	p = it.concretePtr(fr, p)
	if p.cell == nil {
		it.goPanicf(fr, "invalid memory address or nil pointer dereference (store)")
	}
	it.storeCell(fr, p, p.cell, v)
}

func (it *Interp) storeCell(fr *frame, p Ptr, cell *Value, v Value) {
	switch nv := v.(type) {
	case StructV:
		cur, ok := (*cell).(StructV)
		if !ok {
			panic(fmt.Sprintf("store struct into %T at %s", *cell, it.stackString(fr)))
		}
		if cur.t == nv.t || len(cur.f) == len(nv.f) && cur.t.kind == nv.t.kind && layoutSame(cur.t, nv.t) {
			for i := range nv.f {
				it.storeCell(fr, p, &cur.f[i], nv.f[i])
			}
			return
		}
		// view store: map fields of nv.t onto cur.t by offset
		for i := range nv.f {
			j := it.viewField(fr, cur.t, nv.t, i, p)
			it.storeCell(fr, p, &cur.f[j], nv.f[i])
		}
		return
	case ArrayV:
		cur, ok := (*cell).(ArrayV)
		if !ok || len(cur.a) != len(nv.a) {
			panic(fmt.Sprintf("store array into %T at %s", *cell, it.stackString(fr)))
		}
		for i := range nv.a {
			it.storeCell(fr, p, &cur.a[i], nv.a[i])
		}
		return
	}
	pp := p
	pp.cell = cell
	it.noteWrite(fr, pp)
	*cell = v
}

func layoutSame(a, b *TInfo) bool {
	if a == b {
		return true
	}
	if len(a.fields) != len(b.fields) {
		return false
	}
	for i := range a.fields {
		if a.offsets[i] != b.offsets[i] || !layoutCompatible(a.fields[i], b.fields[i]) {
			return false
		}
	}
	return true
}

func layoutCompatible(a, b *TInfo) bool {
	if a == b {
		return true
	}
	if a.kind != b.kind || a.size != b.size {
		return false
	}
	switch a.kind {
	case KIface:
		// same method set => same itab shape
		ai := a.t.Underlying().(*types.Interface)
		bi := b.t.Underlying().(*types.Interface)
		if ai.NumMethods() != bi.NumMethods() {
			return false
		}
		for i := 0; i < ai.NumMethods(); i++ {
			if ai.Method(i).Id() != bi.Method(i).Id() || !types.Identical(ai.Method(i).Type(), bi.Method(i).Type()) {
				return false
			}
		}
		return true
	case KStruct:
		return layoutSame(a, b)
	case KInt:
		return a.w == b.w
	case KBool, KString, KFloat:
		return a.f32 == b.f32
	case KPtr, KSlice:
		return layoutCompatible(a.elem, b.elem)
	case KArray:
		return a.alen == b.alen && layoutCompatible(a.elem, b.elem)
	case KMap:
		return types.Identical(a.t.Underlying(), b.t.Underlying())
	case KFunc:
		return types.Identical(a.t.Underlying(), b.t.Underlying())
	}
	return false
}

// viewField maps field i of view type vt onto the actual struct type at (same byte offset).
func (it *Interp) viewField(fr *frame, at, vt *TInfo, i int, p Ptr) int {
	off := vt.offsets[i]
	for j, o := range at.offsets {
		if o == off {
			if layoutCompatible(at.fields[j], vt.fields[i]) {
				return j
			}
			it.event(fr, "type-confused", fmt.Sprintf("field %d of view %s at offset %d is %s in the underlying %s", i, vt.name, off, at.fields[j].name, at.name))
			it.abort("corrupt", fmt.Sprintf("type-confused access through %s view of %s", vt.name, at.name))
		}
	}
	it.event(fr, "view-out-of-bounds", fmt.Sprintf("field %d of view %s at offset %d lies outside the underlying %s (size %d)", i, vt.name, off, at.name, at.size))
	it.abort("corrupt", fmt.Sprintf("access beyond allocation through %s view of %s", vt.name, at.name))
	return -1
}

// concretePtr resolves a pointer to a symbolically indexed element by forking on the index.
func (it *Interp) concretePtr(fr *frame, p Ptr) Ptr {
	if p.sarr == nil {
		return p
	}
	k := it.forkIndex(fr, p.sidx, len(p.sarr))
	return Ptr{cell: &p.sarr[k], obj: p.obj, elems: p.sarr[k:]}
}

func (it *Interp) fieldAddr(fr *frame, p Ptr, st *TInfo, field int) Ptr {
	p = it.concretePtr(fr, p)
	if p.cell == nil {
		it.goPanicf(fr, "invalid memory address or nil pointer dereference (field %d of nil *%s)", field, st.name)
	}
	sv, ok := (*p.cell).(StructV)
	if !ok {
		panic(fmt.Sprintf("fieldAddr on %T (want %s) at %s", *p.cell, st.name, it.stackString(fr)))
	}
	j := field
	su := it.under(st)
	if sv.t != su && !(len(sv.t.fields) == len(su.fields) && layoutSame(sv.t, su)) {
		j = it.viewField(fr, sv.t, su, field, p)
	}
	return Ptr{cell: &sv.f[j], obj: p.obj, off: p.off + su.offsets[field]}
}

func (it *Interp) under(ti *TInfo) *TInfo { return ti.under }

func (it *Interp) load(fr *frame, p Ptr, ti *TInfo) Value {
	if p.cell == nil {
		it.goPanicf(fr, "invalid memory address or nil pointer dereference (load %s)", ti.name)
	}
	v := *p.cell
	if sv, ok := v.(StructV); ok && ti.kind == KStruct {
		su := it.under(ti)
		if sv.t != su && !(len(sv.t.fields) == len(su.fields) && layoutSame(sv.t, su)) {
			// load through a view
			f := make([]Value, len(su.fields))
			for i := range f {
				j := it.viewField(fr, sv.t, su, i, p)
				f[i] = copyVal(sv.f[j])
			}
			return StructV{su, f}
		}
	}
	return copyVal(v)
}

// ---- type assertions

type implKey struct{ a, b *TInfo }

var implCache sync.Map

func (it *Interp) implementsCached(dyn, iface *TInfo) bool {
	k := implKey{dyn, iface}
	if v, ok := implCache.Load(k); ok {
		return v.(bool)
	}
	r := types.Implements(dyn.t, iface.t.Underlying().(*types.Interface))
	implCache.Store(k, r)
	return r
}

// itabOf: the itab identity of a static interface type (nil for the empty interface).
func itabOf(iface *TInfo) *TInfo {
	if iface == nil || iface.isEmptyIface {
		return nil
	}
	return iface
}

func (it *Interp) typeAssert(fr *frame, ins *ssa.TypeAssert, target, static *TInfo, x Iface) Value {
	ok := false
	var v Value
	if target.kind == KIface {
		if x.t != nil && it.implementsCached(x.t, target) {
			ok = true
			x.itab = itabOf(target)
			v = x
		}
	} else {
		if x.t == target {
			ok = true
			v = x.v
			// x.(T) on a non-empty interface compares the itab pointer: a value stored through an
			// unsafe view under another interface type does not match
			if x.itab != nil && itabOf(static) != nil && x.itab != itabOf(static) {
				ok = false
				it.note(fr, "itab-confusion", fmt.Sprintf("%s value stored as %s read as %s", target.name, x.itab.name, static.name))
			}
		}
	}
	if ins.CommaOk {
		if !ok {
			v = it.zero(target)
		}
		return Tuple{v, mkBool(ok)}
	}
	if !ok {
		have := "nil"
		if x.t != nil {
			have = x.t.name
		}
		it.goPanicf(fr, "interface conversion: interface is %s, not %s", have, target.name)
	}
	return v
}

var debugCalls = os.Getenv("GOSX_DEBUG_CALLS") != ""
