package main

import (
	"fmt"
	"go/token"
	"go/types"
	"math"
	"sort"
	"strings"
	"unicode/utf8"

	"golang.org/x/tools/go/ssa"
)

func (it *Interp) unop(fr *frame, ci *cinstr, ins *ssa.UnOp, x Value) Value {
	switch ins.Op {
	case token.MUL:
		p := x.(Ptr)
		if p.sarr != nil {
			return it.loadSym(fr, p, ci.t)
		}
		return it.load(fr, p, ci.t)
	case token.NOT:
		return mkNot(x.(*Term))
	case token.SUB:
		switch x := x.(type) {
		case *Term:
			return mkUn(OpNeg, x)
		case float64:
			return -x
		case float32:
			return -x
		case complex128:
			return -x
		}
	case token.XOR:
		return mkUn(OpNot, x.(*Term))
	case token.ARROW:
		it.abort("unmodelled", "channel receive at "+it.stackString(fr))
	}
	panic(fmt.Sprintf("unop %s on %T", ins.Op, x))
}

// loadSym loads through a pointer to a symbolically indexed array element.
func (it *Interp) loadSym(fr *frame, p Ptr, ti *TInfo) Value {
	return it.selectElem(fr, p.sarr, p.sidx, ti)
}

// selectElem builds arr[idx] for symbolic idx (already known in range).
func (it *Interp) selectElem(fr *frame, arr []Value, idx *Term, ti *TInfo) Value {
	if len(arr) == 0 {
		panic("selectElem on empty array")
	}
	// all elements must be scalar terms
	allConst := true
	var w uint8
	for i, e := range arr {
		t, ok := e.(*Term)
		if !ok {
			// non-scalar elements: fork on the index
			k := it.forkIndex(fr, idx, len(arr))
			return copyVal(arr[k])
		}
		if i == 0 {
			w = t.w
		}
		if t.op != OpConst {
			allConst = false
		}
	}
	if allConst {
		tbl := make([]uint64, len(arr))
		for i, e := range arr {
			tbl[i] = e.(*Term).c
		}
		return mkTbl(tbl, w, idx)
	}
	if len(arr) > 64 {
		k := it.forkIndex(fr, idx, len(arr))
		return arr[k]
	}
	res := arr[len(arr)-1].(*Term)
	for i := len(arr) - 2; i >= 0; i-- {
		res = mkIte(mkBin(OpEq, idx, mkConst(idx.w, uint64(i))), arr[i].(*Term), res)
	}
	return res
}

// forkIndex concretises idx in [0,n) by forking.
func (it *Interp) forkIndex(fr *frame, idx *Term, n int) int {
	if idx.op == OpConst {
		return int(idx.c)
	}
	for i := 0; i < n-1; i++ {
		if it.branch(fr, mkBin(OpEq, idx, mkConst(idx.w, uint64(i)))) {
			return i
		}
	}
	return n - 1
}

// concreteInt returns the concrete value of t, forking over feasible values if needed.
func (it *Interp) concreteInt(fr *frame, t *Term, why string) int64 {
	if t.op == OpConst {
		return t.S()
	}
	vals := it.candidates(fr, t)
	if vals == nil && it.spec == 0 {
		vals = it.solverCandidates(fr, t, 16)
	}
	if vals == nil {
		it.abort("limit", fmt.Sprintf("cannot concretise %s (%s) at %s", t, why, it.stackString(fr)))
	}
	for i, v := range vals {
		if i == len(vals)-1 {
			// last candidate: must hold
			it.assume(fr, mkBin(OpEq, t, mkConst(t.w, v)))
			return sext64(v, t.w)
		}
		if it.branch(fr, mkBin(OpEq, t, mkConst(t.w, v))) {
			return sext64(v, t.w)
		}
	}
	panic("unreachable")
}

// solverCandidates enumerates, with the solver, every value t can take under the path condition
// (complete enumeration, sorted so that re-execution under a decision prefix sees the same order);
// nil when there are more than max values or the solver gives up.
func (it *Interp) solverCandidates(fr *frame, t *Term, max int) []uint64 {
	wk := it.w
	if it.ps == nil {
		return nil
	}
	it.curFrame = fr
	wk.flush()
	syms := map[int]uint8{}
	t.collectSyms(syms, map[*Term]bool{})
	s := wk.solver
	s.Note = "enumerate values at " + it.stackString(fr)
	s.Push()
	defer s.Pop()
	var found []uint64
	for {
		r := s.Check()
		if r == Unsat {
			break
		}
		if r != Sat || len(found) >= max {
			return nil
		}
		m, err := s.Values(syms)
		if err != nil {
			return nil
		}
		env := &evalEnv{gen: newEvalGen(), get: func(id int, w uint8) uint64 { return m[id] }}
		v := t.eval(env)
		found = append(found, v)
		s.Assert(mkNot(mkBin(OpEq, t, mkConst(t.w, v))))
	}
	if len(found) == 0 {
		return nil
	}
	sort.Slice(found, func(i, j int) bool { return found[i] < found[j] })
	return found
}

// candidates lists the possible values of a single-byte-symbol term, or nil.
func (it *Interp) candidates(fr *frame, t *Term) []uint64 {
	if t.sv < 0 {
		return nil
	}
	dom, ok := it.ps.domains[int(t.sv)]
	if !ok {
		return nil
	}
	seen := map[uint64]bool{}
	var vals []uint64
	env := &evalEnv{}
	for b := 0; b < 256; b++ {
		if !dom.has(b) {
			continue
		}
		env.gen = newEvalGen()
		bb := uint64(b)
		env.get = func(int, uint8) uint64 { return bb }
		v := t.eval(env)
		if !seen[v] {
			seen[v] = true
			vals = append(vals, v)
		}
	}
	return vals
}

func (it *Interp) intBin(fr *frame, op token.Token, tx, ty *TInfo, x, y *Term) Value {
	signed := tx.signed
	switch op {
	case token.ADD:
		return mkBin(OpAdd, x, y)
	case token.SUB:
		return mkBin(OpSub, x, y)
	case token.MUL:
		if it.spec > 0 && x.op != OpConst && y.op != OpConst {
			panic(specFail{"symbolic multiplication"})
		}
		return mkBin(OpMul, x, y)
	case token.QUO, token.REM:
		if it.spec > 0 && (x.op != OpConst || y.op != OpConst) {
			panic(specFail{"symbolic division"})
		}
		if y.op == OpConst {
			if y.c == 0 {
				it.goPanicf(fr, "integer divide by zero")
			}
		} else if it.branch(fr, mkBin(OpEq, y, mkConst(y.w, 0))) {
			it.goPanicf(fr, "integer divide by zero")
		}
		if op == token.QUO {
			if signed {
				return mkBin(OpSDiv, x, y)
			}
			return mkBin(OpUDiv, x, y)
		}
		if signed {
			return mkBin(OpSRem, x, y)
		}
		return mkBin(OpURem, x, y)
	case token.AND:
		return mkBin(OpAnd, x, y)
	case token.OR:
		return mkBin(OpOr, x, y)
	case token.XOR:
		return mkBin(OpXor, x, y)
	case token.AND_NOT:
		return mkBin(OpAnd, x, mkUn(OpNot, y))
	case token.SHL, token.SHR:
		// y may have a different width; negative signed counts panic
		if ty.signed {
			if y.op == OpConst {
				if y.S() < 0 {
					it.goPanicf(fr, "negative shift amount")
				}
			} else if it.branch(fr, mkBin(OpSlt, y, mkConst(y.w, 0))) {
				it.goPanicf(fr, "negative shift amount")
			}
		}
		var big *Term = tFalse
		yy := y
		if y.w > x.w {
			big = mkBin(OpUle, mkConst(y.w, uint64(x.w)), y)
			yy = mkResize(y, x.w, false)
		} else if y.w < x.w {
			yy = mkResize(y, x.w, false)
		}
		var r, over *Term
		switch {
		case op == token.SHL:
			r = mkBin(OpShl, x, yy)
			over = mkConst(x.w, 0)
		case signed:
			r = mkBin(OpAShr, x, yy)
			over = mkBin(OpAShr, x, mkConst(x.w, uint64(x.w-1)))
		default:
			r = mkBin(OpLShr, x, yy)
			over = mkConst(x.w, 0)
		}
		return mkIte(big, over, r)
	case token.EQL:
		return mkBin(OpEq, x, y)
	case token.NEQ:
		return mkNot(mkBin(OpEq, x, y))
	case token.LSS:
		if signed {
			return mkBin(OpSlt, x, y)
		}
		return mkBin(OpUlt, x, y)
	case token.LEQ:
		if signed {
			return mkBin(OpSle, x, y)
		}
		return mkBin(OpUle, x, y)
	case token.GTR:
		if signed {
			return mkBin(OpSlt, y, x)
		}
		return mkBin(OpUlt, y, x)
	case token.GEQ:
		if signed {
			return mkBin(OpSle, y, x)
		}
		return mkBin(OpUle, y, x)
	}
	panic("intBin " + op.String())
}

func floatBin(op token.Token, x, y float64) Value {
	switch op {
	case token.ADD:
		return x + y
	case token.SUB:
		return x - y
	case token.MUL:
		return x * y
	case token.QUO:
		return x / y
	case token.EQL:
		return mkBool(x == y)
	case token.NEQ:
		return mkBool(x != y)
	case token.LSS:
		return mkBool(x < y)
	case token.LEQ:
		return mkBool(x <= y)
	case token.GTR:
		return mkBool(x > y)
	case token.GEQ:
		return mkBool(x >= y)
	}
	panic("floatBin " + op.String())
}

func (it *Interp) binop(fr *frame, op token.Token, tx, ty *TInfo, x, y Value) Value {
	switch xv := x.(type) {
	case *Term:
		yv := y.(*Term)
		if tx.kind == KBool {
			switch op {
			case token.EQL:
				return mkBin(OpEq, xv, yv)
			case token.NEQ:
				return mkNot(mkBin(OpEq, xv, yv))
			case token.AND, token.LAND:
				return mkAnd(xv, yv)
			case token.OR, token.LOR:
				return mkOr(xv, yv)
			}
			panic("bool binop " + op.String())
		}
		return it.intBin(fr, op, tx, ty, xv, yv)
	case float64:
		return floatBin(op, xv, y.(float64))
	case float32:
		r := floatBin(op, float64(xv), float64(y.(float32)))
		if f, ok := r.(float64); ok {
			return float32(f)
		}
		return r
	case complex128:
		yv := y.(complex128)
		switch op {
		case token.ADD:
			return xv + yv
		case token.SUB:
			return xv - yv
		case token.MUL:
			return xv * yv
		case token.QUO:
			return xv / yv
		case token.EQL:
			return mkBool(xv == yv)
		case token.NEQ:
			return mkBool(xv != yv)
		}
	case Str:
		yv := y.(Str)
		switch op {
		case token.ADD:
			if len(xv.b) == 0 {
				return yv
			}
			if len(yv.b) == 0 {
				return xv
			}
			b := make([]Value, 0, len(xv.b)+len(yv.b))
			b = append(b, xv.b...)
			b = append(b, yv.b...)
			return Str{b: b, obj: it.newObj(int64(len(b)), "concat")}
		case token.EQL:
			return strEq(xv.b, yv.b)
		case token.NEQ:
			return mkNot(strEq(xv.b, yv.b))
		case token.LSS:
			return strLess(xv.b, yv.b, false)
		case token.LEQ:
			return strLess(xv.b, yv.b, true)
		case token.GTR:
			return strLess(yv.b, xv.b, false)
		case token.GEQ:
			return strLess(yv.b, xv.b, true)
		}
	}
	switch op {
	case token.EQL:
		return it.equal(fr, x, y)
	case token.NEQ:
		return mkNot(it.equal(fr, x, y))
	}
	panic(fmt.Sprintf("binop %s on %T, %T at %s", op, x, y, it.stackString(fr)))
}

func strEq(a, b []Value) *Term {
	if len(a) != len(b) {
		return tFalse
	}
	if len(a) > 0 && &a[0] == &b[0] {
		return tTrue
	}
	r := tTrue
	for i := range a {
		e := mkBin(OpEq, a[i].(*Term), b[i].(*Term))
		if e.False() {
			return tFalse
		}
		r = mkAnd(r, e)
	}
	return r
}

// strLess: lexicographic a < b (or <= when orEq).
func strLess(a, b []Value, orEq bool) *Term {
	n := len(a)
	if len(b) < n {
		n = len(b)
	}
	// result for equal common prefix
	var tail *Term
	if orEq {
		tail = mkBool(len(a) <= len(b))
	} else {
		tail = mkBool(len(a) < len(b))
	}
	r := tail
	for i := n - 1; i >= 0; i-- {
		x, y := a[i].(*Term), b[i].(*Term)
		r = mkIte(mkBin(OpEq, x, y), r, mkBin(OpUlt, x, y))
	}
	return r
}

func (it *Interp) equal(fr *frame, x, y Value) *Term {
	switch xv := x.(type) {
	case *Term:
		return mkBin(OpEq, xv, y.(*Term))
	case float64:
		return mkBool(xv == y.(float64))
	case float32:
		return mkBool(xv == y.(float32))
	case complex128:
		return mkBool(xv == y.(complex128))
	case Str:
		return strEq(xv.b, y.(Str).b)
	case Ptr:
		yv := y.(Ptr)
		if xv.sarr != nil || yv.sarr != nil {
			it.abort("unmodelled", "comparison of symbolic element pointers")
		}
		return mkBool(xv.cell == yv.cell)
	case Iface:
		yv := y.(Iface)
		if xv.t == nil || yv.t == nil {
			return mkBool(xv.t == nil && yv.t == nil)
		}
		if xv.t != yv.t {
			return tFalse
		}
		if xv.itab != nil && yv.itab != nil && xv.itab != yv.itab {
			return tFalse // the runtime compares itab pointers first
		}
		// the runtime panics for a dynamic type without an equality function, whatever the values hold
		// (a struct with a slice field, such as every vocabulary struct held by value)
		if xv.t.t != nil && !types.Comparable(xv.t.t) {
			it.goPanicf(fr, "comparing uncomparable type %s", xv.t.name)
		}
		switch xv.t.kind {
		case KSlice, KMap, KFunc:
			it.goPanicf(fr, "comparing uncomparable type %s", xv.t.name)
		}
		return it.equal(fr, xv.v, yv.v)
	case StructV:
		yv := y.(StructV)
		r := tTrue
		for i := range xv.f {
			r = mkAnd(r, it.equal(fr, xv.f[i], yv.f[i]))
			if r.False() {
				return r
			}
		}
		return r
	case ArrayV:
		yv := y.(ArrayV)
		r := tTrue
		for i := range xv.a {
			r = mkAnd(r, it.equal(fr, xv.a[i], yv.a[i]))
			if r.False() {
				return r
			}
		}
		return r
	case Slice:
		yv := y.(Slice)
		if xv.obj != nil && yv.obj != nil {
			it.goPanicf(fr, "comparing uncomparable type slice")
		}
		return mkBool(xv.obj == nil && yv.obj == nil)
	case *MapObj:
		yv := y.(*MapObj)
		return mkBool(xv == nil && yv == nil)
	case FuncV:
		yv := y.(FuncV)
		return mkBool(xv.fn == nil && xv.bi == nil && yv.fn == nil && yv.bi == nil)
	case nil:
		return mkBool(y == nil)
	}
	panic(fmt.Sprintf("equal on %T at %s", x, it.stackString(fr)))
}

// ---- conversions

func (it *Interp) convert(fr *frame, from, to *TInfo, v Value) Value {
	switch to.kind {
	case KInt:
		switch x := v.(type) {
		case *Term:
			return mkResize(x, to.w, from.signed)
		case float64:
			return floatToInt(x, to)
		case float32:
			return floatToInt(float64(x), to)
		case Ptr:
			// uintptr(unsafe.Pointer(p)): opaque fake address
			if x.cell == nil {
				return mkConst(to.w, 0)
			}
			// an opaque, stable fake address (only printed by %p, never dereferenced)
			id := 1
			if x.obj != nil {
				id = x.obj.id & 0xfffff
			}
			return mkConst(to.w, uint64(0xc000000000+id*0x1000)+uint64(x.off))
		}
	case KFloat:
		var f float64
		switch x := v.(type) {
		case *Term:
			c := it.concreteInt(fr, x, "int to float")
			if from.signed {
				f = float64(c)
			} else {
				f = float64(uint64(c) & mask(from.w))
			}
		case float64:
			f = x
		case float32:
			f = float64(x)
		}
		if to.f32 {
			return float32(f)
		}
		return f
	case KString:
		switch x := v.(type) {
		case Str:
			return x
		case *Term:
			c := it.concreteInt(fr, x, "rune to string")
			return mkStr(string(rune(c)))
		case Slice:
			if from.elem.kind == KInt && from.elem.w == 8 {
				if len(x.a) == 0 {
					return Str{}
				}
				b := make([]Value, len(x.a))
				copy(b, x.a)
				return Str{b: b, obj: it.newObj(int64(len(b)), "string(bytes)")}
			}
			// []rune -> string
			var rs []rune
			for _, e := range x.a {
				rs = append(rs, rune(it.concreteInt(fr, e.(*Term), "[]rune to string")))
			}
			return mkStr(string(rs))
		}
	case KSlice:
		switch x := v.(type) {
		case Str:
			if to.elem.w == 8 {
				n := len(x.b)
				cp := int(roundupsize(int64(n)))
				if n == 0 {
					// []byte("") is non-nil empty
					return Slice{a: []Value{}, obj: it.newObj(0, "bytes(string)")}
				}
				a := make([]Value, n, cp)
				copy(a, x.b)
				full := a[:cp]
				for i := n; i < cp; i++ {
					full[i] = constBytes[0]
				}
				return Slice{a: a, obj: it.newObj(int64(cp), "bytes(string)")}
			}
			// []rune(string)
			s, ok := x.concrete()
			if !ok {
				// decode through forks on each byte class
				return it.runesOf(fr, x, to)
			}
			rs := []rune(s)
			a := make([]Value, len(rs))
			for i, r := range rs {
				a[i] = mkConst(32, uint64(r))
			}
			return Slice{a: a, obj: it.newObj(int64(4*len(a)), "runes(string)")}
		case Slice:
			return x
		}
	case KUnsafePointer:
		switch x := v.(type) {
		case Ptr:
			return x
		case *Term:
			if x.op == OpConst && x.c == 0 {
				return Ptr{}
			}
			it.abort("unmodelled", "integer to unsafe.Pointer conversion at "+it.stackString(fr))
		}
	case KPtr:
		p := v.(Ptr)
		if from.kind == KUnsafePointer && p.cell != nil {
			it.checkView(fr, p, to)
		}
		return p
	case KArray:
		if s, ok := v.(Slice); ok {
			if int64(len(s.a)) < to.alen {
				it.goPanicf(fr, "cannot convert slice with length %d to array of length %d", len(s.a), to.alen)
			}
			a := make([]Value, to.alen)
			for i := range a {
				a[i] = copyVal(s.a[i])
			}
			return ArrayV{a}
		}
	case KComplex:
		if c, ok := v.(complex128); ok {
			return c
		}
	}
	if from == to || from.kind == to.kind {
		return v
	}
	panic(fmt.Sprintf("convert %s -> %s (%T) at %s", from.name, to.name, v, it.stackString(fr)))
}

func floatToInt(f float64, to *TInfo) Value {
	if to.signed {
		return mkConst(to.w, uint64(int64(f)))
	}
	if f < 0 {
		return mkConst(to.w, uint64(int64(f)))
	}
	if f >= 9.223372036854775808e18 {
		return mkConst(to.w, uint64(f))
	}
	return mkConst(to.w, uint64(f))
}

func (it *Interp) runesOf(fr *frame, s Str, to *TInfo) Value {
	var a []Value
	pos := 0
	for pos < len(s.b) {
		r, n := it.decodeRune(fr, s.b[pos:])
		a = append(a, r)
		pos += n
	}
	return Slice{a: a, obj: it.newObj(int64(4*len(a)), "runes(string)")}
}

// decodeRune decodes the first rune of b (len>0). Symbolic bytes are handled by forking on
// whether the lead byte is ASCII; a non-ASCII symbolic lead byte is concretised.
func (it *Interp) decodeRune(fr *frame, b []Value) (*Term, int) {
	c0 := b[0].(*Term)
	if c0.op == OpConst && c0.c < 0x80 {
		return mkConst(32, c0.c), 1
	}
	allConst := true
	n := len(b)
	if n > 4 {
		n = 4
	}
	var buf [4]byte
	for i := 0; i < n; i++ {
		t := b[i].(*Term)
		if t.op != OpConst {
			allConst = false
			break
		}
		buf[i] = byte(t.c)
	}
	if allConst {
		r, sz := utf8.DecodeRune(buf[:n])
		return mkConst(32, uint64(r)), sz
	}
	// symbolic bytes: run the real decoder from its SSA form
	fn := it.p.utf8Decode()
	res := it.call(fr, FuncV{fn: fn}, []Value{Str{b: b, obj: constStrObj}}).(Tuple)
	sz := int(it.concreteInt(fr, res[1].(*Term), "rune size"))
	return res[0].(*Term), sz
}

// checkView records an unsafe-widening event when *to.elem does not fit in what p points into.
func (it *Interp) checkView(fr *frame, p Ptr, to *TInfo) {
	if p.obj == nil || p.obj.size == 0 {
		return
	}
	need := to.elem.size
	have := p.obj.size - p.off
	if need > have {
		fn := "?"
		if fr != nil {
			fn = fr.cf.fn.Name()
			// the library functions through which the cast was reached (a known finding names one route)
			var via []string
			for f := fr.caller; f != nil && len(via) < 3; f = f.caller {
				n := f.cf.fn.Name()
				if strings.HasPrefix(n, "vp") || strings.HasPrefix(n, "init$") {
					break
				}
				via = append(via, n)
			}
			if len(via) == 0 {
				fn += "/called-directly"
			} else {
				fn += "/via-" + strings.Join(via, "<")
			}
		}
		it.event(fr, "unsafe-widening/"+shortType(to.elem.name)+"/in-"+fn, fmt.Sprintf("*%s (%d bytes) viewing %d bytes of %s", to.elem.name, need, have, p.obj.what))
	}
}

var sizeClasses = []int64{0, 8, 16, 24, 32, 48, 64, 80, 96, 112, 128, 144, 160, 176, 192, 208, 224, 240, 256, 288, 320, 352, 384, 416, 448, 480, 512, 576, 640, 704, 768, 896, 1024, 1152, 1280, 1408, 1536, 1792, 2048, 2304, 2688, 3072, 3200, 3456, 4096, 4864, 5376, 6144, 6528, 6784, 6912, 8192, 9472, 9728, 10240, 10880, 12288, 13568, 14336, 16384, 18432, 19072, 20480, 21760, 24576, 27264, 28672, 32768}

func roundupsize(n int64) int64 {
	if n <= 32768 {
		for _, c := range sizeClasses {
			if c >= n {
				return c
			}
		}
	}
	const page = 8192
	return (n + page - 1) / page * page
}

func nextSliceCap(newLen, oldCap int) int {
	newcap := oldCap
	doublecap := newcap + newcap
	if newLen > doublecap {
		return newLen
	}
	const threshold = 256
	if oldCap < threshold {
		return doublecap
	}
	for {
		newcap += (newcap + 3*threshold) >> 2
		if uint(newcap) >= uint(newLen) {
			break
		}
	}
	if newcap <= 0 {
		return newLen
	}
	return newcap
}

func (it *Interp) growCap(newLen, oldCap int, elemSize int64) int {
	nc := nextSliceCap(newLen, oldCap)
	if elemSize <= 0 {
		return nc
	}
	mem := roundupsize(int64(nc) * elemSize)
	return int(mem / elemSize)
}

// appendValues implements append(s, elems...) with runtime-like growth.
func (it *Interp) appendValues(fr *frame, s Slice, elems []Value, et *TInfo) Slice {
	if len(elems) == 0 {
		return s
	}
	n := len(s.a)
	newLen := n + len(elems)
	if newLen <= cap(s.a) {
		a := s.a[:newLen]
		for i, e := range elems {
			p := Ptr{cell: &a[n+i], obj: s.obj}
			it.storeCell(fr, p, p.cell, copyVal(e))
		}
		return Slice{a: a, obj: s.obj}
	}
	nc := it.growCap(newLen, cap(s.a), et.size)
	if nc < newLen {
		nc = newLen
	}
	a := make([]Value, newLen, nc)
	copy(a, s.a)
	for i, e := range elems {
		a[n+i] = copyVal(e)
	}
	full := a[:nc]
	for i := newLen; i < nc; i++ {
		full[i] = it.zero(et)
	}
	return Slice{a: a, obj: it.newObj(int64(nc)*et.size, "append")}
}

// ---- indexing

func (it *Interp) boundsCheck(fr *frame, idx *Term, n int, signed bool) {
	if idx.op == OpConst {
		v := idx.S()
		if !signed {
			v = int64(idx.c)
			if idx.w == 64 && idx.c > 1<<62 {
				v = -1
			}
		}
		if v < 0 || v >= int64(n) {
			it.goPanicf(fr, "index out of range [%d] with length %d", v, n)
		}
		return
	}
	if idx.w < 64 && uint64(n) > mask(idx.w) {
		return // the index type cannot exceed the length
	}
	in := mkBin(OpUlt, idx, mkConst(idx.w, uint64(n)))
	if !it.branch(fr, in) {
		it.goPanicf(fr, "index out of range [symbolic] with length %d", n)
	}
}

func (it *Interp) indexAddr(fr *frame, ci *cinstr, x Value, idx *Term) Value {
	var arr []Value
	var obj *Obj
	var off int64
	switch xv := x.(type) {
	case Slice:
		arr, obj = xv.a, xv.obj
	case Ptr:
		xv = it.concretePtr(fr, xv)
		if xv.cell == nil {
			it.goPanicf(fr, "invalid memory address or nil pointer dereference (index of nil *array)")
		}
		arr, obj, off = (*xv.cell).(ArrayV).a, xv.obj, xv.off
	default:
		panic(fmt.Sprintf("indexAddr on %T", x))
	}
	it.boundsCheck(fr, idx, len(arr), ci.idxSigned)
	if idx.op == OpConst {
		return Ptr{cell: &arr[idx.c], obj: obj, off: off + int64(idx.c)*ci.t.size, elems: arr[idx.c:]}
	}
	return Ptr{sarr: arr, sidx: idx, obj: obj}
}

func (it *Interp) index(fr *frame, ci *cinstr, x Value, idx *Term) Value {
	switch xv := x.(type) {
	case ArrayV:
		it.boundsCheck(fr, idx, len(xv.a), ci.idxSigned)
		if idx.op == OpConst {
			return copyVal(xv.a[idx.c])
		}
		return it.selectElem(fr, xv.a, idx, ci.t)
	case Str:
		it.boundsCheck(fr, idx, len(xv.b), ci.idxSigned)
		if idx.op == OpConst {
			return xv.b[idx.c]
		}
		return it.selectElem(fr, xv.b, idx, ci.t)
	}
	panic(fmt.Sprintf("index on %T", x))
}

func (it *Interp) lookup(fr *frame, ci *cinstr, ins *ssa.Lookup, x Value, k Value) Value {
	switch xv := x.(type) {
	case Str:
		idx := k.(*Term)
		it.boundsCheck(fr, idx, len(xv.b), ci.idxSigned)
		if idx.op == OpConst {
			return xv.b[idx.c]
		}
		return it.selectElem(fr, xv.b, idx, ci.t)
	case *MapObj:
		var vt *TInfo
		if ins.CommaOk {
			vt = ci.t.fields[0]
		} else {
			vt = ci.t
		}
		v, ok := it.mapLookup(fr, xv, k)
		if !ok {
			v = it.zero(vt)
		}
		if ins.CommaOk {
			return Tuple{copyVal(v), mkBool(ok)}
		}
		return copyVal(v)
	}
	panic(fmt.Sprintf("lookup on %T", x))
}

// termsEqual: structural equality of two small terms.
func termsEqual(a, b *Term, depth int) bool {
	if a == b {
		return true
	}
	if a == nil || b == nil || depth == 0 || a.op != b.op || a.w != b.w || a.c != b.c || a.sv != b.sv || len(a.tbl) != len(b.tbl) {
		return false
	}
	if a.op == OpSym {
		return true // same symbol number (compared through c above)
	}
	return termsEqual(a.x, b.x, depth-1) && termsEqual(a.y, b.y, depth-1) && termsEqual(a.z, b.z, depth-1)
}

// sliceConstTable: s[lo:lo+k] of a constant string with a symbolic lo and a small constant k (the
// digit-pair tables of strconv) becomes k table look-ups instead of a fork per value of lo.
func (it *Interp) sliceConstTable(fr *frame, ci *cinstr, xv Str) (Value, bool) {
	if it.spec > 0 || it.ps == nil || ci.ops[1].kind == okNilValue || ci.ops[2].kind == okNilValue || len(xv.b) == 0 || len(xv.b) > 4096 {
		return nil, false
	}
	loT, ok1 := it.get(fr, &ci.ops[1]).(*Term)
	hiT, ok2 := it.get(fr, &ci.ops[2]).(*Term)
	if !ok1 || !ok2 || loT.op == OpConst || hiT.op == OpConst {
		return nil, false
	}
	k := -1
	if termsEqual(hiT, loT, 8) {
		k = 0
	} else if hiT.op == OpAdd && hiT.y != nil && hiT.y.op == OpConst && hiT.y.c <= 8 && termsEqual(hiT.x, loT, 8) {
		k = int(hiT.y.c)
	} else if hiT.op == OpAdd && hiT.x != nil && hiT.x.op == OpConst && hiT.x.c <= 8 && termsEqual(hiT.y, loT, 8) {
		k = int(hiT.x.c)
	}
	if k < 0 || k > len(xv.b) {
		return nil, false
	}
	tbl := make([]uint64, len(xv.b))
	for i, b := range xv.b {
		t, ok := b.(*Term)
		if !ok || t.op != OpConst {
			return nil, false
		}
		tbl[i] = t.c
	}
	// lo in [0, len-k] (an unsigned comparison also rejects negative lo)
	if it.branch(fr, mkBin(OpUlt, mkConst(loT.w, uint64(len(xv.b)-k)), loT)) {
		it.goPanicf(fr, "slice bounds out of range [symbolic:+%d] with length %d", k, len(xv.b))
	}
	if k == 0 {
		return Str{}, true
	}
	out := make([]Value, k)
	for j := 0; j < k; j++ {
		out[j] = mkTbl(tbl, 8, mkBin(OpAdd, loT, mkConst(loT.w, uint64(j))))
	}
	return Str{b: out, obj: it.newObj(int64(k), "table slice")}, true
}

func (it *Interp) slice(fr *frame, ci *cinstr, ins *ssa.Slice) Value {
	x := it.get(fr, &ci.ops[0])
	geti := func(i int, def int) int {
		if ci.ops[i].kind == okNilValue {
			return def
		}
		return int(it.concreteInt(fr, it.get(fr, &ci.ops[i]).(*Term), "slice bound"))
	}
	switch xv := x.(type) {
	case Str:
		if v, ok := it.sliceConstTable(fr, ci, xv); ok {
			return v
		}
		lo := geti(1, 0)
		hi := geti(2, len(xv.b))
		if lo < 0 || hi < lo || hi > len(xv.b) {
			it.goPanicf(fr, "slice bounds out of range [%d:%d] with length %d", lo, hi, len(xv.b))
		}
		if lo == hi {
			return Str{}
		}
		return Str{b: xv.b[lo:hi:hi], obj: xv.obj}
	case Slice:
		lo := geti(1, 0)
		hi := geti(2, len(xv.a))
		mx := geti(3, cap(xv.a))
		if lo < 0 || hi < lo || mx < hi || mx > cap(xv.a) {
			it.goPanicf(fr, "slice bounds out of range [%d:%d:%d] with capacity %d", lo, hi, mx, cap(xv.a))
		}
		if xv.obj == nil {
			return Slice{}
		}
		return Slice{a: xv.a[lo:hi:mx], obj: xv.obj}
	case Ptr:
		if xv.cell == nil {
			it.goPanicf(fr, "invalid memory address or nil pointer dereference (slice of nil *array)")
		}
		arr := (*xv.cell).(ArrayV).a
		lo := geti(1, 0)
		hi := geti(2, len(arr))
		mx := geti(3, len(arr))
		if lo < 0 || hi < lo || mx < hi || mx > len(arr) {
			it.goPanicf(fr, "slice bounds out of range [%d:%d:%d] with capacity %d", lo, hi, mx, len(arr))
		}
		return Slice{a: arr[lo:hi:mx], obj: xv.obj}
	}
	panic(fmt.Sprintf("slice on %T", x))
}

// ---- maps

func concreteKey(v Value) (string, bool) {
	switch k := v.(type) {
	case *Term:
		if k.op == OpConst {
			return fmt.Sprintf("i%d:%d", k.w, k.c), true
		}
		return "", false
	case Str:
		s, ok := k.concrete()
		return "s" + s, ok
	case float64:
		return fmt.Sprintf("f%v", math.Float64bits(k)), true
	case Ptr:
		return fmt.Sprintf("p%p", k.cell), true
	case Iface:
		if k.t == nil {
			return "nil", true
		}
		s, ok := concreteKey(k.v)
		return fmt.Sprintf("I%d/%s", k.t.id, s), ok
	case StructV:
		r := "S{"
		for _, f := range k.f {
			s, ok := concreteKey(f)
			if !ok {
				return "", false
			}
			r += s + ","
		}
		return r + "}", true
	case ArrayV:
		r := "A{"
		for _, f := range k.a {
			s, ok := concreteKey(f)
			if !ok {
				return "", false
			}
			r += s + ","
		}
		return r + "}", true
	}
	return "", false
}

func (it *Interp) mapFind(fr *frame, m *MapObj, k Value) int {
	if m == nil {
		return -1
	}
	ck, conc := concreteKey(k)
	if conc {
		if i, ok := m.idx[ck]; ok {
			return i
		}
		if !m.hasSym {
			return -1
		}
	}
	for i := range m.entries {
		e := &m.entries[i]
		if e.deleted {
			continue
		}
		if conc && e.conc {
			continue // concrete keys were resolved by the index
		}
		eq := it.equal(fr, e.k, k)
		if eq.True() {
			return i
		}
		if eq.False() {
			continue
		}
		if it.branch(fr, eq) {
			return i
		}
	}
	return -1
}

func (it *Interp) mapLookup(fr *frame, m *MapObj, k Value) (Value, bool) {
	i := it.mapFind(fr, m, k)
	if i < 0 {
		return nil, false
	}
	return m.entries[i].v, true
}

func (it *Interp) mapJournal(m *MapObj) {
	if it.spec > 0 && (m.obj == nil || m.obj.id <= it.specBase) {
		panic(specFail{"map update of outer map"})
	}
	if m.obj != nil && m.obj.frozen {
		it.event(it.curFrame, "write-to-frozen", "map")
	}
	if m.obj != nil && m.obj.epoch < it.epoch && !it.inInit && !it.mapSnap[m] {
		it.mapSnap[m] = true
		snap := make([]mapEntry, len(m.entries))
		copy(snap, m.entries)
		idx := make(map[string]int, len(m.idx))
		for k, v := range m.idx {
			idx[k] = v
		}
		it.journal = append(it.journal, journalEntry{m: m, snap: snap, idx: idx, n: m.n})
	}
}

func (it *Interp) mapUpdate(fr *frame, m *MapObj, k, v Value) {
	if m == nil {
		it.goPanicf(fr, "assignment to entry in nil map")
	}
	it.curFrame = fr
	it.mapJournal(m)
	i := it.mapFind(fr, m, k)
	if i >= 0 {
		m.entries[i].v = copyVal(v)
		return
	}
	ck, conc := concreteKey(k)
	m.entries = append(m.entries, mapEntry{k: copyVal(k), v: copyVal(v), conc: conc})
	if conc {
		m.idx[ck] = len(m.entries) - 1
	} else {
		m.hasSym = true
	}
	m.n++
}

func (it *Interp) mapDelete(fr *frame, m *MapObj, k Value) {
	if m == nil {
		return
	}
	i := it.mapFind(fr, m, k)
	if i < 0 {
		return
	}
	it.curFrame = fr
	it.mapJournal(m)
	m.entries[i].deleted = true
	if ck, conc := concreteKey(m.entries[i].k); conc {
		delete(m.idx, ck)
	}
	m.n--
}

// ---- range

func (it *Interp) rangeIter(fr *frame, x Value) Value {
	switch xv := x.(type) {
	case Str:
		it.objSeq++
		return &IterV{str: xv, isStr: true, id: it.objSeq}
	case *MapObj:
		it.objSeq++
		iv := &IterV{m: xv, id: it.objSeq}
		if xv != nil {
			for i := range xv.entries {
				if !xv.entries[i].deleted {
					iv.order = append(iv.order, i)
				}
			}
			if it.w != nil && it.w.cfg.MapOrderAll && len(iv.order) > 1 && len(iv.order) <= 4 {
				// choose a permutation nondeterministically
				perm := it.choosePerm(fr, len(iv.order))
				no := make([]int, len(perm))
				for i, p := range perm {
					no[i] = iv.order[p]
				}
				iv.order = no
			}
		}
		return iv
	}
	panic(fmt.Sprintf("range on %T", x))
}

func (it *Interp) choosePerm(fr *frame, n int) []int {
	rest := make([]int, n)
	for i := range rest {
		rest[i] = i
	}
	var perm []int
	for len(rest) > 1 {
		k := it.choice(fr, len(rest), false)
		perm = append(perm, rest[k])
		rest = append(rest[:k:k], rest[k+1:]...)
	}
	return append(perm, rest[0])
}

func (it *Interp) next(fr *frame, ins *ssa.Next, iv *IterV, ti *TInfo) Value {
	if it.spec > 0 && iv.id <= it.specBase {
		panic(specFail{"advance of an outer iterator"})
	}
	if iv.isStr {
		if iv.pos >= len(iv.str.b) {
			return Tuple{tFalse, mkConst(64, 0), mkConst(32, 0)}
		}
		r, n := it.decodeRune(fr, iv.str.b[iv.pos:])
		res := Tuple{tTrue, mkConst(64, uint64(iv.pos)), r}
		iv.pos += n
		return res
	}
	for iv.pos < len(iv.order) {
		e := &iv.m.entries[iv.order[iv.pos]]
		iv.pos++
		if e.deleted {
			continue
		}
		return Tuple{tTrue, copyVal(e.k), copyVal(e.v)}
	}
	return Tuple{tFalse, it.zero(ti.fields[1]), it.zero(ti.fields[2])}
}
