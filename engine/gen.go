package main

// Harness generator: reads the struct definitions of the current source tree and emits the
// per-type field tables, setters and field-by-field comparators the harness families use.

import (
	"bytes"
	"fmt"
	"go/ast"
	"go/parser"
	"go/token"
	"os"
	"path/filepath"
	"reflect"
	"sort"
	"strconv"
	"strings"
)

type genField struct {
	Name, Type, Term, Kind string
	Collapsible            bool
}

type genStruct struct {
	Name   string
	Fields []genField
	File   string
}

var kindOfType = map[string]string{
	"ID": "IRI", "IRI": "IRI", "ActivityVocabularyType": "Type", "NaturalLanguageValues": "NLV",
	"Item": "Item", "ObjectOrLink": "Item", "CanReceiveActivities": "Item", "ItemCollection": "Items",
	"time.Time": "Time", "time.Duration": "Duration", "MimeType": "Mime", "Source": "Source",
	"uint": "Uint", "float64": "Float", "string": "String", "int64": "Int", "bool": "Bool",
	"PublicKey": "PublicKey", "LangRef": "LangRef", "*Endpoints": "Endpoints",
}

func exprString(e ast.Expr) string {
	switch x := e.(type) {
	case *ast.Ident:
		return x.Name
	case *ast.SelectorExpr:
		return exprString(x.X) + "." + x.Sel.Name
	case *ast.StarExpr:
		return "*" + exprString(x.X)
	case *ast.ArrayType:
		return "[]" + exprString(x.Elt)
	}
	return fmt.Sprintf("%T", e)
}

// parseStructs returns the vocabulary structs (those with jsonld tags) of the package in repo.
func parseStructs(repo string) ([]genStruct, error) {
	fset := token.NewFileSet()
	files, err := filepath.Glob(filepath.Join(repo, "*.go"))
	if err != nil {
		return nil, err
	}
	sort.Strings(files)
	var out []genStruct
	for _, f := range files {
		if strings.HasSuffix(f, "_test.go") || strings.HasPrefix(filepath.Base(f), "zz_vp_") {
			continue
		}
		af, err := parser.ParseFile(fset, f, nil, 0)
		if err != nil {
			return nil, err
		}
		for _, d := range af.Decls {
			gd, ok := d.(*ast.GenDecl)
			if !ok || gd.Tok != token.TYPE {
				continue
			}
			for _, sp := range gd.Specs {
				ts := sp.(*ast.TypeSpec)
				st, ok := ts.Type.(*ast.StructType)
				if !ok || ts.Assign.IsValid() {
					continue
				}
				gs := genStruct{Name: ts.Name.Name, File: filepath.Base(f)}
				tagged := false
				for _, fl := range st.Fields.List {
					tag := ""
					if fl.Tag != nil {
						tag = reflect.StructTag(strings.Trim(fl.Tag.Value, "`")).Get("jsonld")
					}
					if tag != "" {
						tagged = true
					}
					parts := strings.Split(tag, ",")
					for _, n := range fl.Names {
						gf := genField{Name: n.Name, Type: exprString(fl.Type), Term: parts[0]}
						for _, p := range parts[1:] {
							if p == "collapsible" {
								gf.Collapsible = true
							}
						}
						gf.Kind = kindOfType[gf.Type]
						if gf.Kind == "Type" && gf.Name != "Type" {
							gf.Kind = "TypeName" // a property holding a type name (formerType), not the value's own type
						}
						if gf.Kind == "" {
							gf.Kind = "Unknown"
						}
						gs.Fields = append(gs.Fields, gf)
					}
				}
				if tagged {
					out = append(out, gs)
				}
			}
		}
	}
	return out, nil
}

var vocabOrder = []string{"Object", "Actor", "Activity", "IntransitiveActivity", "Question", "Collection", "CollectionPage",
	"OrderedCollection", "OrderedCollectionPage", "Place", "Profile", "Relationship", "Tombstone", "Link"}

var canonicalType = map[string]string{"Object": "NoteType", "Actor": "PersonType", "Activity": "LikeType", "IntransitiveActivity": "ArriveType",
	"Question": "QuestionType", "Collection": "CollectionType", "CollectionPage": "CollectionPageType", "OrderedCollection": "OrderedCollectionType",
	"OrderedCollectionPage": "OrderedCollectionPageType", "Place": "PlaceType", "Profile": "ProfileType", "Relationship": "RelationshipType",
	"Tombstone": "TombstoneType", "Link": "MentionType"}

func generateHarnesses(repo, prop, dir string) error {
	structs, err := parseStructs(repo)
	if err != nil {
		return err
	}
	byName := map[string]genStruct{}
	for _, s := range structs {
		byName[s.Name] = s
	}
	var vocab []genStruct
	for _, n := range vocabOrder {
		if s, ok := byName[n]; ok {
			vocab = append(vocab, s)
		}
	}
	// any further tagged struct that implements the vocabulary (new type added to the source)
	for _, s := range structs {
		known := false
		for _, n := range vocabOrder {
			if n == s.Name {
				known = true
			}
		}
		if !known && s.Name != "Source" && s.Name != "Endpoints" && s.Name != "PublicKey" {
			hasID := false
			for _, f := range s.Fields {
				if f.Name == "ID" {
					hasID = true
				}
			}
			if hasID {
				vocab = append(vocab, s)
			}
		}
	}
	var b bytes.Buffer
	b.WriteString("package activitypub\n\nimport \"time\"\n\n// Code generated from the struct definitions of the current tree. DO NOT EDIT.\n\n")
	b.WriteString("type vpFieldInfo struct {\n\tName, Kind, Term string\n\tCollapsible bool\n}\n\n")
	// type table
	b.WriteString("var vpTypeNames = []string{")
	for _, s := range vocab {
		fmt.Fprintf(&b, "%q, ", s.Name)
	}
	b.WriteString("}\n\n")
	b.WriteString("// vpNew returns a pointer to a fresh value of vocabulary struct ti with its canonical type set.\nfunc vpNew(ti int) Item {\n\tswitch ti {\n")
	for i, s := range vocab {
		ct := canonicalType[s.Name]
		if ct == "" {
			fmt.Fprintf(&b, "\tcase %d:\n\t\treturn &%s{}\n", i, s.Name)
		} else {
			fmt.Fprintf(&b, "\tcase %d:\n\t\treturn &%s{Type: %s}\n", i, s.Name, ct)
		}
	}
	b.WriteString("\t}\n\treturn nil\n}\n\n")
	b.WriteString("func vpFieldsOf(ti int) []vpFieldInfo {\n\tswitch ti {\n")
	for i, s := range vocab {
		fmt.Fprintf(&b, "\tcase %d:\n\t\treturn vpFields_%s\n", i, s.Name)
	}
	b.WriteString("\t}\n\treturn nil\n}\n\n")
	b.WriteString("func vpSetField(it Item, field, shape int, tag byte) {\n\tswitch x := it.(type) {\n")
	for _, s := range vocab {
		fmt.Fprintf(&b, "\tcase *%s:\n\t\tvpSet_%s(x, field, shape, tag)\n", s.Name, s.Name)
	}
	b.WriteString("\t}\n}\n\n")
	b.WriteString("func vpFieldIsZero(it Item, field int) bool {\n\tswitch x := it.(type) {\n")
	for _, s := range vocab {
		fmt.Fprintf(&b, "\tcase *%s:\n\t\treturn vpIsZero_%s(x, field)\n", s.Name, s.Name)
	}
	b.WriteString("\t}\n\treturn true\n}\n\n")
	b.WriteString("// vpDiffItems asserts field by field that two values of the same vocabulary struct are equal.\nfunc vpDiffItems(prefix string, a, b Item, skip func(string) bool) {\n\tswitch x := a.(type) {\n")
	for _, s := range vocab {
		fmt.Fprintf(&b, "\tcase *%s:\n\t\ty, ok := b.(*%s)\n\t\tvpAssert(prefix+\"/same-go-type\", ok && y != nil)\n\t\tif ok && y != nil {\n\t\t\tvpDiff_%s(prefix, x, y, skip)\n\t\t}\n", s.Name, s.Name, s.Name)
	}
	b.WriteString("\tdefault:\n\t\tvpAssert(prefix+\"/known-type\", false)\n\t}\n}\n\n")
	b.WriteString("// vpMergeCheck asserts the merge rules field by field: after is old or from; set-in-old/unset-in-from is kept; merged fields set in from win.\nfunc vpMergeCheck(prefix string, after, old, from Item, merged func(string) bool) {\n\tswitch x := after.(type) {\n")
	for _, s := range vocab {
		fmt.Fprintf(&b, "\tcase *%s:\n\t\to, ok1 := old.(*%s)\n\t\tf, ok2 := from.(*%s)\n\t\tvpAssert(prefix+\"/same-go-type\", ok1 && ok2)\n\t\tif ok1 && ok2 {\n\t\t\tvpMerge_%s(prefix, x, o, f, merged)\n\t\t}\n", s.Name, s.Name, s.Name, s.Name)
	}
	b.WriteString("\tdefault:\n\t\tvpAssert(prefix+\"/known-type\", false)\n\t}\n}\n\n")
	b.WriteString("// vpMapItemFields applies fn to every single-item property of a vocabulary struct.\nfunc vpMapItemFields(it Item, fn func(name string, v Item) Item) {\n\tswitch x := it.(type) {\n")
	for _, s := range vocab {
		fmt.Fprintf(&b, "\tcase *%s:\n", s.Name)
		for _, f := range s.Fields {
			if f.Kind == "Item" {
				fmt.Fprintf(&b, "\t\tx.%s = fn(%q, x.%s)\n", f.Name, f.Name, f.Name)
			}
		}
	}
	b.WriteString("\t}\n}\n\n")
	b.WriteString("// vpDocOf writes the ActivityStreams document for a value with an independent writer (terms from the jsonld tags).\nfunc vpDocOf(it Item, variant int) []byte {\n\tswitch x := it.(type) {\n")
	for _, s := range vocab {
		fmt.Fprintf(&b, "\tcase *%s:\n\t\tif x == nil {\n\t\t\treturn []byte(\"null\")\n\t\t}\n\t\treturn vpDoc_%s(x, variant)\n", s.Name, s.Name)
	}
	b.WriteString("\t}\n\treturn vpDocValue(it, variant)\n}\n\n")
	b.WriteString("// vpFieldBox returns field number field of a vocabulary struct, boxed.\nfunc vpFieldBox(it Item, field int) any {\n\tswitch x := it.(type) {\n")
	for _, s := range vocab {
		fmt.Fprintf(&b, "\tcase *%s:\n\t\tswitch field {\n", s.Name)
		for i, f := range s.Fields {
			fmt.Fprintf(&b, "\t\tcase %d:\n\t\t\treturn x.%s\n", i, f.Name)
		}
		b.WriteString("\t\t}\n")
	}
	b.WriteString("\t}\n\treturn nil\n}\n\n")
	b.WriteString("// vpSetInstants sets published and updated through the struct's own fields and every other instant to a decoy;\n// false when the type has no published/updated.\nfunc vpSetInstants(it Item, published, updated, decoy time.Time) bool {\n\tswitch x := it.(type) {\n")
	for _, s := range vocab {
		hasP, hasU := false, false
		for _, f := range s.Fields {
			if f.Kind == "Time" && f.Name == "Published" {
				hasP = true
			}
			if f.Kind == "Time" && f.Name == "Updated" {
				hasU = true
			}
		}
		if !hasP || !hasU {
			continue
		}
		fmt.Fprintf(&b, "\tcase *%s:\n", s.Name)
		for _, f := range s.Fields {
			if f.Kind != "Time" {
				continue
			}
			switch f.Name {
			case "Published":
				fmt.Fprintf(&b, "\t\tx.Published = published\n")
			case "Updated":
				fmt.Fprintf(&b, "\t\tx.Updated = updated\n")
			default:
				fmt.Fprintf(&b, "\t\tx.%s = decoy\n", f.Name)
			}
		}
		b.WriteString("\t\treturn true\n")
	}
	b.WriteString("\t}\n\treturn false\n}\n\n")
	b.WriteString("// vpSetNLV stores v in natural-language field number field; false when that field is of another kind.\nfunc vpSetNLV(it Item, field int, v NaturalLanguageValues) bool {\n\tswitch x := it.(type) {\n")
	for _, s := range vocab {
		fmt.Fprintf(&b, "\tcase *%s:\n\t\tswitch field {\n", s.Name)
		for i, f := range s.Fields {
			if f.Kind == "NLV" {
				fmt.Fprintf(&b, "\t\tcase %d:\n\t\t\tx.%s = v\n\t\t\treturn true\n", i, f.Name)
			}
		}
		b.WriteString("\t\t}\n")
	}
	b.WriteString("\t}\n\treturn false\n}\n\n")
	b.WriteString("// vpPtrOf returns the pointer form of a vocabulary struct held by value (decoders hand out pointer forms).\nfunc vpPtrOf(a Item) Item {\n\tswitch x := a.(type) {\n")
	for _, s := range vocab {
		fmt.Fprintf(&b, "\tcase %s:\n\t\tc := x\n\t\treturn &c\n", s.Name)
	}
	b.WriteString("\t}\n\treturn a\n}\n\n")
	b.WriteString("// vpCloneItem makes a shallow copy of a vocabulary struct behind a pointer.\nfunc vpCloneItem(a Item) Item {\n\tswitch x := a.(type) {\n")
	for _, s := range vocab {
		fmt.Fprintf(&b, "\tcase *%s:\n\t\tc := *x\n\t\treturn &c\n", s.Name)
	}
	b.WriteString("\t}\n\treturn a\n}\n\n")
	// deep comparator over items
	b.WriteString("// vpEqItem is a structural comparator independent of the library's own equality.\nfunc vpEqItem(a, b Item) bool {\n\tif a == nil || b == nil {\n\t\treturn a == nil && b == nil\n\t}\n\tswitch x := a.(type) {\n")
	b.WriteString("\tcase IRI:\n\t\ty, ok := b.(IRI)\n\t\treturn ok && x == y\n")
	b.WriteString("\tcase ItemCollection:\n\t\ty, ok := b.(ItemCollection)\n\t\treturn ok && vpEq_Items(x, y)\n")
	b.WriteString("\tcase IRIs:\n\t\ty, ok := b.(IRIs)\n\t\tif !ok || len(x) != len(y) {\n\t\t\treturn false\n\t\t}\n\t\tfor i := range x {\n\t\t\tif x[i] != y[i] {\n\t\t\t\treturn false\n\t\t\t}\n\t\t}\n\t\treturn true\n")
	for _, s := range vocab {
		fmt.Fprintf(&b, "\tcase *%s:\n\t\ty, ok := b.(*%s)\n\t\tif !ok || x == nil || y == nil {\n\t\t\treturn ok && x == nil && y == nil\n\t\t}\n\t\treturn vpDeepEq_%s(x, y)\n", s.Name, s.Name, s.Name)
		fmt.Fprintf(&b, "\tcase %s:\n\t\ty, ok := b.(%s)\n\t\treturn ok && vpDeepEq_%s(&x, &y)\n", s.Name, s.Name, s.Name)
	}
	b.WriteString("\t}\n\treturn false\n}\n\n")
	all := append(append([]genStruct{}, vocab...), byName["Source"], byName["Endpoints"], byName["PublicKey"])
	for _, s := range all {
		if s.Name == "" {
			continue
		}
		fmt.Fprintf(&b, "var vpFields_%s = []vpFieldInfo{\n", s.Name)
		for _, f := range s.Fields {
			fmt.Fprintf(&b, "\t{%q, %q, %q, %v},\n", f.Name, f.Kind, f.Term, f.Collapsible)
		}
		b.WriteString("}\n\n")
		fmt.Fprintf(&b, "func vpDeepEq_%s(a, b *%s) bool {\n", s.Name, s.Name)
		for _, f := range s.Fields {
			fmt.Fprintf(&b, "\tif !vpEq_%s(a.%s, b.%s) {\n\t\treturn false\n\t}\n", f.Kind, f.Name, f.Name)
		}
		b.WriteString("\treturn true\n}\n\n")
		fmt.Fprintf(&b, "func vpDiff_%s(prefix string, a, b *%s, skip func(string) bool) {\n", s.Name, s.Name)
		for _, f := range s.Fields {
			fmt.Fprintf(&b, "\tif skip == nil || !skip(%q) {\n\t\tvpAssert(prefix+\"/%s\", vpEq_%s(a.%s, b.%s))\n\t}\n", f.Name, f.Name, f.Kind, f.Name, f.Name)
		}
		b.WriteString("}\n\n")
		fmt.Fprintf(&b, "func vpMerge_%s(prefix string, after, old, from *%s, merged func(string) bool) {\n", s.Name, s.Name)
		for _, f := range s.Fields {
			if f.Name == "ID" || f.Name == "Type" {
				fmt.Fprintf(&b, "\tvpAssert(prefix+\"/takes-from/%s\", vpEq_%s(after.%s, from.%s))\n", f.Name, f.Kind, f.Name, f.Name)
				continue
			}
			fmt.Fprintf(&b, "\tvpAssert(prefix+\"/old-or-new/%s\", vpEq_%s(after.%s, old.%s) || vpEq_%s(after.%s, from.%s))\n", f.Name, f.Kind, f.Name, f.Name, f.Kind, f.Name, f.Name)
			fmt.Fprintf(&b, "\tif !vpZero_%s(old.%s) && vpZero_%s(from.%s) {\n\t\tvpAssert(prefix+\"/not-lost/%s\", vpEq_%s(after.%s, old.%s))\n\t}\n", f.Kind, f.Name, f.Kind, f.Name, f.Name, f.Kind, f.Name, f.Name)
			fmt.Fprintf(&b, "\tif merged(%q) && !vpZero_%s(from.%s) {\n\t\tvpAssert(prefix+\"/from-wins/%s\", vpEq_%s(after.%s, from.%s))\n\t}\n", f.Name, f.Kind, f.Name, f.Name, f.Kind, f.Name, f.Name)
		}
		b.WriteString("}\n\n")
		fmt.Fprintf(&b, "func vpDoc_%s(x *%s, variant int) []byte {\n\tw := &vpDocWriter{}\n", s.Name, s.Name)
		for _, f := range s.Fields {
			if f.Term == "" {
				continue
			}
			fmt.Fprintf(&b, "\tif !vpZero_%s(x.%s) {\n\t\tvpDocMember_%s(w, %q, x.%s, variant)\n\t}\n", f.Kind, f.Name, f.Kind, f.Term, f.Name)
		}
		b.WriteString("\treturn w.done()\n}\n\n")
		fmt.Fprintf(&b, "func vpSet_%s(x *%s, field, shape int, tag byte) {\n\tswitch field {\n", s.Name, s.Name)
		for i, f := range s.Fields {
			if f.Kind == "Unknown" {
				// a field of a type the harness library has no constructor for: never populated, compared as equal
				fmt.Fprintf(&b, "\tcase %d:\n", i)
				continue
			}
			fmt.Fprintf(&b, "\tcase %d:\n\t\tx.%s = vpMk_%s(shape, tag)\n", i, f.Name, f.Kind)
		}
		b.WriteString("\t}\n}\n\n")
		fmt.Fprintf(&b, "func vpIsZero_%s(x *%s, field int) bool {\n\tswitch field {\n", s.Name, s.Name)
		for i, f := range s.Fields {
			fmt.Fprintf(&b, "\tcase %d:\n\t\treturn vpZero_%s(x.%s)\n", i, f.Kind, f.Name)
		}
		b.WriteString("\t}\n\treturn true\n}\n\n")
	}
	// exported functions and methods that accept an item
	names, err := scanItemFuncs(repo)
	if err != nil {
		return err
	}
	autos, err := scanAutoCalls(repo)
	if err != nil {
		return err
	}
	b.WriteString("// vpAutoHelpers: a synthesised call, with the item under test in every item position, for every exported\n// function or method whose other parameters are call-backs, pointers or plain values (built from the signatures\n// of the current tree, so a helper added later is driven without touching the harnesses).\nvar vpAutoHelpers = []vpHelper{\n")
	for _, a := range autos {
		fmt.Fprintf(&b, "\t{%q, func(x Item, c string) { %s }},\n", a[0], a[1])
	}
	b.WriteString("}\n\n")
	b.WriteString("// vpItemFuncs: every exported function or method of the current tree with an Item/LinkOrIRI parameter.\nvar vpItemFuncs = []string{\n")
	for _, n := range names {
		fmt.Fprintf(&b, "\t%q,\n", n)
	}
	b.WriteString("}\n\n")
	// every constant of type ActivityVocabularyType in the current source
	consts, err := scanTypeConsts(repo)
	if err != nil {
		return err
	}
	b.WriteString("var vpVocabConsts = []struct {\n\tName  string\n\tValue ActivityVocabularyType\n}{\n")
	for _, c := range consts {
		fmt.Fprintf(&b, "\t{%q, %s},\n", c, c)
	}
	b.WriteString("}\n\n")
	// every decoding entry point: methods UnmarshalJSON/UnmarshalText/GobDecode/UnmarshalBinary with a []byte parameter
	entries, terms, err := scanDecoders(repo)
	if err != nil {
		return err
	}
	b.WriteString("var vpDecodeEntries = []string{\n")
	for _, e := range entries {
		fmt.Fprintf(&b, "\t%q,\n", e[0]+"."+e[1])
	}
	b.WriteString("\t\"UnmarshalJSON\",\n\t\"GobDecode\",\n}\n\n")
	b.WriteString("// vpDecodeEntry calls decoding entry point i on data and returns what it produced.\nfunc vpDecodeEntry(i int, data []byte) (any, error) {\n\tswitch i {\n")
	for i, e := range entries {
		fmt.Fprintf(&b, "\tcase %d:\n\t\tx := new(%s)\n\t\terr := x.%s(data)\n\t\treturn x, err\n", i, e[0], e[1])
	}
	fmt.Fprintf(&b, "\tcase %d:\n\t\treturn UnmarshalJSON(data)\n\tcase %d:\n\t\treturn GobDecode(data)\n", len(entries), len(entries)+1)
	b.WriteString("\t}\n\treturn nil, nil\n}\n\n")
	b.WriteString("// vpDecoderTerms: every member name the JSON decoders look up (string literals passed to JSONGet* and Get).\nvar vpDecoderTerms = []string{\n")
	for _, t := range terms {
		fmt.Fprintf(&b, "\t%q,\n", t)
	}
	b.WriteString("}\n\n")
	// the repository's mock documents
	mocks, _ := filepath.Glob(filepath.Join(repo, "tests", "mocks", "*.json"))
	sort.Strings(mocks)
	b.WriteString("var vpMockDocs = []struct{ name, doc string }{\n")
	for _, m := range mocks {
		data, err := os.ReadFile(m)
		if err != nil {
			return err
		}
		fmt.Fprintf(&b, "\t{%q, %q},\n", filepath.Base(m), string(data))
	}
	b.WriteString("}\n\n")
	if err := os.WriteFile(filepath.Join(dir, "gen.go"), b.Bytes(), 0o644); err != nil {
		return err
	}
	if g, ok := generators[prop]; ok {
		return g(repo, dir, vocab)
	}
	return nil
}

var generators = map[string]func(repo, dir string, vocab []genStruct) error{}

// shapesOfKind: number of value shapes the harness library offers for a field kind.
var shapesOfKind = map[string]int{"IRI": 1, "Type": 0, "NLV": 3, "Item": 7, "Items": 3, "Time": 3, "Duration": 3, "Mime": 1, "Source": 2,
	"TypeName": 2, "Uint": 1, "Float": 3, "String": 1, "Int": 2, "Bool": 1, "PublicKey": 1, "LangRef": 1, "Endpoints": 1, "Unknown": 0}

func funcTypeString(e ast.Expr) string {
	switch x := e.(type) {
	case *ast.Ellipsis:
		return "..." + exprString(x.Elt)
	case *ast.FuncType:
		return "func"
	case *ast.IndexExpr:
		return exprString(x.X)
	}
	return exprString(e)
}

// scanItemFuncs lists exported functions/methods with a parameter of type Item, LinkOrIRI, ObjectOrLink or ...Item.
func scanItemFuncs(repo string) ([]string, error) {
	fset := token.NewFileSet()
	files, err := filepath.Glob(filepath.Join(repo, "*.go"))
	if err != nil {
		return nil, err
	}
	var out []string
	for _, f := range files {
		if strings.HasSuffix(f, "_test.go") || strings.HasPrefix(filepath.Base(f), "zz_vp_") {
			continue
		}
		af, err := parser.ParseFile(fset, f, nil, 0)
		if err != nil {
			return nil, err
		}
		for _, d := range af.Decls {
			fd, ok := d.(*ast.FuncDecl)
			if !ok || !fd.Name.IsExported() {
				continue
			}
			has := false
			for _, p := range fd.Type.Params.List {
				switch funcTypeString(p.Type) {
				case "Item", "LinkOrIRI", "ObjectOrLink", "...Item":
					has = true
				}
			}
			if !has {
				continue
			}
			name := fd.Name.Name
			if fd.Recv != nil && len(fd.Recv.List) > 0 {
				name = "(" + funcTypeString(fd.Recv.List[0].Type) + ")." + name
			}
			out = append(out, name)
		}
	}
	sort.Strings(out)
	return out, nil
}

// scanTypeConsts lists the names of all constants declared with type ActivityVocabularyType.
func scanTypeConsts(repo string) ([]string, error) {
	fset := token.NewFileSet()
	files, err := filepath.Glob(filepath.Join(repo, "*.go"))
	if err != nil {
		return nil, err
	}
	var out []string
	for _, f := range files {
		if strings.HasSuffix(f, "_test.go") || strings.HasPrefix(filepath.Base(f), "zz_vp_") {
			continue
		}
		af, err := parser.ParseFile(fset, f, nil, 0)
		if err != nil {
			return nil, err
		}
		for _, d := range af.Decls {
			gd, ok := d.(*ast.GenDecl)
			if !ok || gd.Tok != token.CONST {
				continue
			}
			for _, sp := range gd.Specs {
				vs := sp.(*ast.ValueSpec)
				if vs.Type == nil || exprString(vs.Type) != "ActivityVocabularyType" {
					continue
				}
				for _, n := range vs.Names {
					out = append(out, n.Name)
				}
			}
		}
	}
	sort.Strings(out)
	return out, nil
}

// scanDecoders lists decoding methods (receiver type, method name) and the terms the JSON decoders look up.
func scanDecoders(repo string) ([][2]string, []string, error) {
	fset := token.NewFileSet()
	files, err := filepath.Glob(filepath.Join(repo, "*.go"))
	if err != nil {
		return nil, nil, err
	}
	var entries [][2]string
	termSet := map[string]bool{}
	for _, f := range files {
		if strings.HasSuffix(f, "_test.go") || strings.HasPrefix(filepath.Base(f), "zz_vp_") {
			continue
		}
		af, err := parser.ParseFile(fset, f, nil, 0)
		if err != nil {
			return nil, nil, err
		}
		for _, d := range af.Decls {
			fd, ok := d.(*ast.FuncDecl)
			if !ok {
				continue
			}
			if fd.Recv != nil && len(fd.Recv.List) == 1 {
				switch fd.Name.Name {
				case "UnmarshalJSON", "UnmarshalText", "GobDecode", "UnmarshalBinary":
					if st, ok := fd.Recv.List[0].Type.(*ast.StarExpr); ok && len(fd.Type.Params.List) == 1 && exprString(fd.Type.Params.List[0].Type) == "[]byte" {
						entries = append(entries, [2]string{exprString(st.X), fd.Name.Name})
					}
				}
			}
			if fd.Body == nil {
				continue
			}
			ast.Inspect(fd.Body, func(n ast.Node) bool {
				call, ok := n.(*ast.CallExpr)
				if !ok {
					return true
				}
				name := ""
				switch fn := call.Fun.(type) {
				case *ast.Ident:
					name = fn.Name
				case *ast.SelectorExpr:
					name = fn.Sel.Name
				}
				if strings.HasPrefix(name, "JSONGet") || name == "Get" || name == "GetStringBytes" || name == "Exists" || name == "GetArray" {
					for _, a := range call.Args {
						if lit, ok := a.(*ast.BasicLit); ok && lit.Kind == token.STRING {
							if t, err := strconvUnquote(lit.Value); err == nil && t != "" {
								termSet[t] = true
							}
						}
					}
				}
				return true
			})
		}
	}
	sort.Slice(entries, func(i, j int) bool { return entries[i][0]+"."+entries[i][1] < entries[j][0]+"."+entries[j][1] })
	var terms []string
	for t := range termSet {
		terms = append(terms, t)
	}
	sort.Strings(terms)
	return entries, terms, nil
}

func strconvUnquote(s string) (string, error) { return strconv.Unquote(s) }

// typeExprString prints a type expression of the package's own source, or "" if it has a form this
// generator does not reproduce.
func typeExprString(e ast.Expr) string {
	switch x := e.(type) {
	case *ast.Ident:
		return x.Name
	case *ast.SelectorExpr:
		if id, ok := x.X.(*ast.Ident); ok {
			return id.Name + "." + x.Sel.Name
		}
	case *ast.StarExpr:
		if t := typeExprString(x.X); t != "" {
			return "*" + t
		}
	case *ast.ArrayType:
		if x.Len == nil {
			if t := typeExprString(x.Elt); t != "" {
				return "[]" + t
			}
		}
	case *ast.MapType:
		k, v := typeExprString(x.Key), typeExprString(x.Value)
		if k != "" && v != "" {
			return "map[" + k + "]" + v
		}
	case *ast.InterfaceType:
		if x.Methods == nil || len(x.Methods.List) == 0 {
			return "any"
		}
	}
	return ""
}

// funcLiteral prints a call-back of the given type that does nothing and returns zero values.
func funcLiteral(ft *ast.FuncType) string {
	var ps []string
	if ft.Params != nil {
		for _, p := range ft.Params.List {
			var t string
			if el, ok := p.Type.(*ast.Ellipsis); ok {
				t = typeExprString(el.Elt)
				if t != "" {
					t = "..." + t
				}
			} else {
				t = typeExprString(p.Type)
			}
			if t == "" {
				return ""
			}
			n := len(p.Names)
			if n == 0 {
				n = 1
			}
			for i := 0; i < n; i++ {
				ps = append(ps, "_ "+t)
			}
		}
	}
	var rs, zs []string
	if ft.Results != nil {
		for _, r := range ft.Results.List {
			t := typeExprString(r.Type)
			if t == "" {
				return ""
			}
			n := len(r.Names)
			if n == 0 {
				n = 1
			}
			for i := 0; i < n; i++ {
				rs = append(rs, t)
				zs = append(zs, "*new("+t+")")
			}
		}
	}
	res := ""
	if len(rs) > 0 {
		res = " (" + strings.Join(rs, ", ") + ")"
	}
	body := ""
	if len(zs) > 0 {
		body = " return " + strings.Join(zs, ", ") + " "
	}
	return "func(" + strings.Join(ps, ", ") + ")" + res + " {" + body + "}"
}

// scanAutoCalls builds, for every exported non-generic function/method with an item parameter, a call
// expression that passes x in the item positions. Functions with a parameter it cannot build are left out.
func scanAutoCalls(repo string) ([][2]string, error) {
	fset := token.NewFileSet()
	files, err := filepath.Glob(filepath.Join(repo, "*.go"))
	if err != nil {
		return nil, err
	}
	var decls []*ast.FuncDecl
	funcTypes := map[string]*ast.FuncType{}
	for _, f := range files {
		if strings.HasSuffix(f, "_test.go") || strings.HasPrefix(filepath.Base(f), "zz_vp_") {
			continue
		}
		af, err := parser.ParseFile(fset, f, nil, 0)
		if err != nil {
			return nil, err
		}
		for _, d := range af.Decls {
			switch x := d.(type) {
			case *ast.FuncDecl:
				decls = append(decls, x)
			case *ast.GenDecl:
				if x.Tok != token.TYPE {
					continue
				}
				for _, sp := range x.Specs {
					ts := sp.(*ast.TypeSpec)
					if ft, ok := ts.Type.(*ast.FuncType); ok && ts.TypeParams == nil {
						funcTypes[ts.Name.Name] = ft
					}
				}
			}
		}
	}
	var out [][2]string
	for _, fd := range decls {
		if !fd.Name.IsExported() || fd.Type.TypeParams != nil {
			continue
		}
		hasItem := false
		ok := true
		var args []string
		for _, p := range fd.Type.Params.List {
			n := len(p.Names)
			if n == 0 {
				n = 1
			}
			var arg string
			switch ts := funcTypeString(p.Type); ts {
			case "Item", "LinkOrIRI", "ObjectOrLink", "...Item":
				hasItem = true
				arg = "x"
			default:
				if ft, isFn := p.Type.(*ast.FuncType); isFn {
					arg = funcLiteral(ft)
				} else if id, isId := p.Type.(*ast.Ident); isId && funcTypes[id.Name] != nil {
					arg = funcLiteral(funcTypes[id.Name])
				} else if st, isStar := p.Type.(*ast.StarExpr); isStar {
					if t := typeExprString(st.X); t != "" {
						arg = "new(" + t + ")"
					}
				} else if _, isEll := p.Type.(*ast.Ellipsis); isEll {
					arg = "\x00skip" // no variadic arguments
				} else if t := typeExprString(p.Type); t != "" {
					arg = "*new(" + t + ")"
				}
				if arg == "" {
					ok = false
				}
			}
			for i := 0; i < n; i++ {
				if arg != "\x00skip" {
					args = append(args, arg)
				}
			}
		}
		if !hasItem || !ok {
			continue
		}
		name := fd.Name.Name
		call := fd.Name.Name
		if fd.Recv != nil && len(fd.Recv.List) > 0 {
			rt := fd.Recv.List[0].Type
			name = "(" + funcTypeString(rt) + ")." + name
			if st, isStar := rt.(*ast.StarExpr); isStar {
				t := typeExprString(st.X)
				if t == "" {
					continue
				}
				call = "new(" + t + ")." + fd.Name.Name
			} else {
				t := typeExprString(rt)
				if t == "" {
					continue
				}
				call = "(*new(" + t + "))." + fd.Name.Name
			}
		}
		out = append(out, [2]string{name, call + "(" + strings.Join(args, ", ") + ")"})
	}
	sort.Slice(out, func(i, j int) bool { return out[i][0] < out[j][0] })
	return out, nil
}
