package main

// generateHarnesses writes harness files derived from the current source of repo into dir.
func generateHarnesses(repo, prop, dir string) error {
	if g, ok := generators[prop]; ok {
		return g(repo, dir)
	}
	return nil
}

var generators = map[string]func(repo, dir string) error{}
