package main

import (
	"golang.org/x/tools/go/ssa"
)

type ssaFunction = ssa.Function

// per-property adjustments of the exploration limits
var propConfig = map[string]func(tier string, cfg *Config){
	// C04 demands termination: a path that exhausts its instruction budget and whose native replay does
	// not come back within its deadline either is reported as a violation, not as an inconclusive run
	"C04": func(tier string, cfg *Config) { cfg.BudgetIsViolation = true },
	// the three-step histories of C19 over four tags and empty/non-empty texts are many short paths
	"C19": func(tier string, cfg *Config) {
		if cfg.MaxPaths < 400000 {
			cfg.MaxPaths = 400000
		}
	},
}

var commonAssumptions = []string{
	"go/packages + go/ssa (x/tools v0.29.0) build the SSA form faithfully; go/types Sizes for gc/amd64 give struct layouts",
	"gosx interpreter semantics (values, memory, panics, growslice capacities) match the gc runtime; validated per run by replaying solver models natively (traces_validated_against_impl)",
	"sync/atomic, sync.Pool, sync.Mutex have single-threaded semantics; internal/bytealg primitives are modelled directly",
	"package initialisers of the interpreted packages are run concretely; reflect-based initialisers yield zero values",
	"time.Local is UTC (native replays run with TZ=UTC)",
	"the deciding solver (z3 5.1.0 by default) answers correctly - its verdicts were replayed through z3 4.8.12 and cvc5 without disagreement (tools/crosscheck.py); any unknown/error makes the run inconclusive (exit 2), never a pass",
}

var propAssume = map[string][]string{}

func propAssumptions(prop string) []string {
	return append(append([]string{}, commonAssumptions...), propAssume[prop]...)
}

var propBound = map[string]map[string]map[string]interface{}{}

func propBounds(prop, tier string, cfg Config) map[string]interface{} {
	b := map[string]interface{}{
		"max_paths_per_harness": cfg.MaxPaths,
		"max_instructions_per_path": cfg.MaxSteps,
		"max_decisions_per_path": cfg.MaxDecisions,
		"solver_timeout_ms": cfg.SolverTimeoutMs,
		"unwinding": "loops run until their condition is decided false; a path that exceeds a limit makes the run inconclusive",
	}
	if pb, ok := propBound[prop]; ok {
		for k, v := range pb[tier] {
			b[k] = v
		}
	}
	return b
}
