package main

import (
	"encoding/json"
	"flag"
	"fmt"
	"os"
	"os/exec"
	"path/filepath"
	"regexp"
	"runtime"
	"sort"
	"strconv"
	"strings"
	"time"
)

var verifDir = envOr("VERIF_DIR", "/verif") // harnesses, known findings; evidence and replays go to outDir
var outDir = envOr("VERIF_OUT", verifDir)

type KnownFinding struct {
	Status   string `json:"status"` // known | fixed
	Property string `json:"property"`
	Harness  string `json:"harness,omitempty"`
	Assert   string `json:"assert,omitempty"`
	What     string `json:"what"`
	Commit   string `json:"commit,omitempty"`
}

type ReplayCase struct {
	Harness string `json:"harness"`
	Tape    []Draw `json:"tape"`
}

type ReplayResult struct {
	Fails        []string `json:"fails"`
	Panicked     bool     `json:"panicked"`
	PanicMsg     string   `json:"panic_msg"`
	Reached      []string `json:"reached"`
	Observes     []string `json:"observes"`
	Exhausted    bool     `json:"exhausted"`
	Mismatch     string   `json:"mismatch"`
	AssumeFailed bool     `json:"assume_failed"`
	Crashed      bool     `json:"crashed"` // the replay process died (fatal error), isolated to this case
}

type ReplayFile struct {
	Property string   `json:"property"`
	Harness  string   `json:"harness"`
	Assert   string   `json:"assert"`
	Kind     string   `json:"kind"`
	Detail   string   `json:"detail"`
	Tape     []Draw   `json:"tape"`
	TapeText string   `json:"tape_text"`
	Native   *ReplayResult `json:"native_result,omitempty"`
	Cmd      string   `json:"cmd"`
}

const replayTestSrc = `package activitypub

import (
	"encoding/json"
	"fmt"
	"os"
	"runtime/debug"
	"testing"
)

type vpCase struct {
	Harness string   ` + "`json:\"harness\"`" + `
	Tape    []vpDraw ` + "`json:\"tape\"`" + `
}

type vpResult struct {
	Fails        []string ` + "`json:\"fails\"`" + `
	Panicked     bool     ` + "`json:\"panicked\"`" + `
	PanicMsg     string   ` + "`json:\"panic_msg\"`" + `
	Reached      []string ` + "`json:\"reached\"`" + `
	Observes     []string ` + "`json:\"observes\"`" + `
	Exhausted    bool     ` + "`json:\"exhausted\"`" + `
	Mismatch     string   ` + "`json:\"mismatch\"`" + `
	AssumeFailed bool     ` + "`json:\"assume_failed\"`" + `
}

func vpRunCase(c vpCase) (res vpResult) {
	f, ok := vpHarnesses[c.Harness]
	if !ok {
		res.Mismatch = "unknown harness " + c.Harness
		return
	}
	vpS = &vpState{tape: c.Tape}
	saveTyper, saveUnm, saveNE := ItemTyperFunc, JSONItemUnmarshal, IsNotEmpty
	defer func() {
		ItemTyperFunc, JSONItemUnmarshal, IsNotEmpty = saveTyper, saveUnm, saveNE
		if r := recover(); r != nil {
			switch r.(type) {
			case vpStop:
			case vpAssumeFailed:
				res.AssumeFailed = true
			default:
				res.Panicked = true
				res.PanicMsg = fmt.Sprint(r)
			}
		}
		res.Fails = vpS.fails
		res.Reached = vpS.reached
		res.Observes = vpS.observes
		res.Exhausted = vpS.exhausted
		res.Mismatch = vpS.mismatch
	}()
	f()
	return
}

func TestVPReplay(t *testing.T) {
	in := os.Getenv("VP_REPLAY_IN")
	out := os.Getenv("VP_REPLAY_OUT")
	if in == "" || out == "" {
		t.Skip("no replay input")
	}
	debug.SetMaxStack(128 << 20) // unbounded recursion dies quickly instead of after 1 GB of stack
	data, err := os.ReadFile(in)
	if err != nil {
		t.Fatal(err)
	}
	var cases []vpCase
	if err := json.Unmarshal(data, &cases); err != nil {
		t.Fatal(err)
	}
	results := make([]vpResult, len(cases))
	for i, c := range cases {
		results[i] = vpRunCase(c)
	}
	data, _ = json.Marshal(results)
	if err := os.WriteFile(out, data, 0o644); err != nil {
		t.Fatal(err)
	}
}
`

// nativeReplay runs the cases against the real build with go test -overlay.
func nativeReplay(repo string, realFiles map[string]string, harnessNames []string, cases []ReplayCase, scratch string, extraFlags []string) ([]ReplayResult, string, error) {
	if len(cases) == 0 {
		return nil, "", nil
	}
	var sb strings.Builder
	sb.WriteString(replayTestSrc)
	sb.WriteString("\nvar vpHarnesses = map[string]func(){\n")
	for _, h := range harnessNames {
		fmt.Fprintf(&sb, "\t%q: %s,\n", h, h)
	}
	sb.WriteString("}\n")
	testFile := filepath.Join(scratch, "replay_test.go")
	if err := os.WriteFile(testFile, []byte(sb.String()), 0o644); err != nil {
		return nil, "", err
	}
	ov := struct{ Replace map[string]string }{Replace: map[string]string{}}
	for virt, real := range realFiles {
		ov.Replace[virt] = real
	}
	ov.Replace[filepath.Join(repo, "zz_vp_replay_test.go")] = testFile
	ovData, _ := json.Marshal(ov)
	ovFile := filepath.Join(scratch, "overlay.json")
	os.WriteFile(ovFile, ovData, 0o644)
	// build the test binary once, then run the cases in one process; when that process dies (a fatal
	// error such as a stack overflow cannot be recovered by the harness) the cases are split until the
	// dying ones are isolated, and those are reported as crashed.
	bin := filepath.Join(scratch, "replay.test")
	args := []string{"test", "-c", "-vet=off", "-o", bin, "-overlay", ovFile}
	args = append(args, extraFlags...)
	args = append(args, ".")
	cmd := exec.Command("go", args...)
	cmd.Dir = repo
	cmd.Env = append(os.Environ(), "GOFLAGS=-mod=mod", "GOPROXY=off", "GOSUMDB=off", "GOTOOLCHAIN=local")
	if outb, err := cmd.CombinedOutput(); err != nil {
		return nil, string(outb), fmt.Errorf("go test failed: %v", err)
	}
	defer os.Remove(bin)
	var lastOut string
	var runBatch func(cs []ReplayCase, depth int) ([]ReplayResult, error)
	runBatch = func(cs []ReplayCase, depth int) ([]ReplayResult, error) {
		inFile := filepath.Join(scratch, fmt.Sprintf("replay_in_%d.json", depth))
		outFile := filepath.Join(scratch, fmt.Sprintf("replay_out_%d.json", depth))
		os.Remove(outFile)
		data, _ := json.Marshal(cs)
		os.WriteFile(inFile, data, 0o644)
		cmd := exec.Command(bin, "-test.run", "^TestVPReplay$", "-test.count=1", "-test.timeout="+replayTimeout)
		cmd.Dir = repo
		cmd.Env = append(os.Environ(), "TZ=UTC", "VP_REPLAY_IN="+inFile, "VP_REPLAY_OUT="+outFile)
		outb, err := cmd.CombinedOutput()
		if len(outb) > 20000 {
			outb = append(outb[:10000:10000], outb[len(outb)-10000:]...)
		}
		lastOut = string(outb)
		if err == nil {
			rd, err := os.ReadFile(outFile)
			if err != nil {
				return nil, err
			}
			var results []ReplayResult
			if err := json.Unmarshal(rd, &results); err != nil {
				return nil, err
			}
			if len(results) != len(cs) {
				return nil, fmt.Errorf("replay returned %d results for %d cases", len(results), len(cs))
			}
			return results, nil
		}
		if len(cs) == 1 {
			msg := "process died: " + firstFatalLine(lastOut)
			return []ReplayResult{{Panicked: true, PanicMsg: msg, Crashed: true}}, nil
		}
		if depth > 40 {
			return nil, fmt.Errorf("go test failed: %v", err)
		}
		h := len(cs) / 2
		a, err := runBatch(cs[:h], depth+1)
		if err != nil {
			return nil, err
		}
		b, err := runBatch(cs[h:], depth+1)
		if err != nil {
			return nil, err
		}
		return append(a, b...), nil
	}
	results, err := runBatch(cases, 0)
	if err != nil {
		return nil, lastOut, err
	}
	return results, lastOut, nil
}

// replayTimeout: the deadline of one native replay process (short for the replay of a path that
// exhausted its instruction budget: not coming back is the expected outcome there)
var replayTimeout = "30m"

func firstFatalLine(out string) string {
	for _, l := range strings.Split(out, "\n") {
		if strings.HasPrefix(l, "fatal error:") || strings.HasPrefix(l, "runtime: goroutine stack exceeds") || strings.HasPrefix(l, "panic:") {
			return strings.TrimSpace(l)
		}
	}
	ls := strings.Split(strings.TrimSpace(out), "\n")
	if len(ls) > 0 {
		return ls[0]
	}
	return "no output"
}

func contains(xs []string, x string) bool {
	for _, y := range xs {
		if y == x {
			return true
		}
	}
	return false
}

var safeName = regexp.MustCompile(`[^A-Za-z0-9_.-]+`)

type tierCfg struct {
	prefixes []string
	cfg      Config
	confSample int
	wallLimit time.Duration
}

func cmdCheck(args []string) {
	fs := flag.NewFlagSet("check", flag.ExitOnError)
	prop := fs.String("prop", "", "property id, e.g. C19")
	tier := fs.String("tier", os.Getenv("VERIF_TIER"), "quick|thorough")
	repo := fs.String("repo", envOr("VERIF_REPO", "/repo"), "repository")
	workers := fs.Int("workers", runtime.NumCPU(), "workers")
	verbose := fs.Bool("v", false, "verbose")
	noReplay := fs.Bool("no-replay", false, "skip native replay (development only; never registered)")
	only := fs.String("only", "", "only harnesses matching this substring (development)")
	mapAll := fs.Bool("map-order-all", false, "explore map iteration orders")
	solverName := fs.String("solver", envOr("GOSX_SOLVER", defaultSolver), "solver: z3-new (5.x), z3 (4.8.12), cvc5")
	deadline := fs.Int("deadline", 0, "wall-clock limit in seconds for the exploration (0 = tier default)")
	fs.Parse(args)
	if *prop == "" {
		fmt.Fprintln(os.Stderr, "check: -prop required")
		os.Exit(2)
	}
	if *tier == "" {
		*tier = "quick"
	}
	seed := 0
	if s := os.Getenv("VERIF_SEED"); s != "" {
		seed, _ = strconv.Atoi(s)
	}
	t0 := time.Now()
	scratch, err := os.MkdirTemp("", "vp-"+*prop+"-")
	if err != nil {
		fatal(err)
	}
	defer os.RemoveAll(scratch)

	// 1. harness sources: hand-written + generated from the current tree
	genDir := filepath.Join(scratch, "gen")
	os.MkdirAll(genDir, 0o755)
	if err := generateHarnesses(*repo, *prop, genDir); err != nil {
		fatal(fmt.Errorf("generator: %v", err))
	}
	snapDir := filepath.Join(scratch, "harness")
	os.MkdirAll(snapDir, 0o755)
	ov, realFiles, err := overlayFrom(*repo, snapDir, filepath.Join(verifDir, "harness"), genDir)
	if err != nil {
		fatal(err)
	}
	p, mainPkg, err := LoadProgram(*repo, ov)
	if err != nil {
		fmt.Println("INCONCLUSIVE: cannot load/build the repository with harnesses:", err)
		writeEvidenceFailure(*prop, *tier, seed, time.Since(t0).Seconds(), err.Error())
		os.Exit(2)
	}
	loadS := time.Since(t0).Seconds()

	hs := findHarnesses(mainPkg, "vpH_"+*prop+"_")
	if *tier == "thorough" {
		hs = append(hs, findHarnesses(mainPkg, "vpT_"+*prop+"_")...)
	}
	if *only != "" {
		var f []*ssaFunction
		for _, h := range hs {
			if strings.Contains(h.Name(), *only) {
				f = append(f, h)
			}
		}
		hs = f
	}
	if len(hs) == 0 {
		fatal(fmt.Errorf("no harnesses for %s", *prop))
	}
	var allNames []string
	for _, h := range findHarnesses(mainPkg, "vpH_") {
		allNames = append(allNames, h.Name())
	}
	for _, h := range findHarnesses(mainPkg, "vpT_") {
		allNames = append(allNames, h.Name())
	}
	for _, h := range findHarnesses(mainPkg, "vpW_") {
		allNames = append(allNames, h.Name())
	}

	cfg := Config{MaxPaths: 20000, MaxSteps: 20_000_000, MaxDecisions: 4000, SolverTimeoutMs: 30000, Workers: *workers, Solver: *solverName, Verbose: *verbose, MapOrderAll: *mapAll}
	confSample := 300
	if *tier == "thorough" {
		cfg.MaxPaths = 1_000_000
		cfg.SolverTimeoutMs = 120000
		cfg.MaxDecisions = 20000
		confSample = 2000
	}
	if pc, ok := propConfig[*prop]; ok {
		pc(*tier, &cfg)
	}

	// 2. vacuity twin: a harness whose last assertion is false must be reported
	twins := findHarnesses(mainPkg, "vpW_"+*prop+"_")
	ex := NewExplorer(p, cfg, append(append([]*ssaFunction{}, hs...), twins...))
	dl := *deadline
	if dl == 0 {
		dl = 2400
		if *tier == "thorough" {
			dl = 3 * 3600
		}
	}
	ex.deadline = time.Now().Add(time.Duration(dl) * time.Second)
	t1 := time.Now()
	ex.Run()
	exploreS := time.Since(t1).Seconds()

	known := loadKnown()
	var inconclusive []string
	var newVios []*Violation
	var staticVios []Violation
	staticSites := 0
	var staticDescr []string
	if *prop == "C08" {
		var serr error
		staticVios, staticSites, staticDescr, serr = p.checkCastSites(cfg.Solver, cfg.SolverTimeoutMs)
		if serr != nil {
			inconclusive = append(inconclusive, "static cast analysis: "+serr.Error())
		}
		if staticSites == 0 {
			inconclusive = append(inconclusive, "static cast analysis found no conversion site (vacuous)")
		}
	}
	var knownFired []string
	states, transitions, domDec, solDec := 0, 0, 0, 0
	var totalSteps int64
	vacuity := 0
	twinsViolated := 0
	harnessNames := []string{}
	var samples []interface{}
	var confCases []ReplayCase
	var confExpect []PathResult
	for i, st := range ex.stats {
		isTwin := i >= len(hs)
		if isTwin {
			if len(st.Violations) > 0 {
				twinsViolated++
			} else {
				inconclusive = append(inconclusive, "vacuity twin "+st.Name+" was not reported violated")
			}
			continue
		}
		harnessNames = append(harnessNames, st.Name)
		states += st.Done
		transitions += st.Decisions
		domDec += st.DomDecided
		solDec += st.SolDecided
		totalSteps += st.Steps
		if st.Limit {
			inconclusive = append(inconclusive, st.Name+": path limit reached")
		}
		for k, n := range st.Aborted {
			inconclusive = append(inconclusive, fmt.Sprintf("%s: %d path(s) ended %s: %s", st.Name, n, k, st.AbortEx[k]))
		}
		if st.Reached["end"] > 0 {
			vacuity++
		} else {
			inconclusive = append(inconclusive, st.Name+": no path reached the end (vacuous)")
		}
		var ids []string
		for id := range st.Violations {
			ids = append(ids, id)
		}
		sort.Strings(ids)
		for _, id := range ids {
			newVios = append(newVios, st.Violations[id])
		}
		for j, s := range st.Samples {
			if s.Tape == nil {
				continue
			}
			if len(samples) < 6 && j == 0 {
				samples = append(samples, map[string]interface{}{"harness": s.Harness, "tape": tapeString(s.Tape), "decisions": s.Decisions, "steps": s.Steps})
			}
			if len(confCases) < confSample && (j+seed)%((len(st.Samples)*len(hs))/confSample+1) == 0 {
				confCases = append(confCases, ReplayCase{Harness: s.Harness, Tape: s.Tape})
				confExpect = append(confExpect, s)
			}
		}
	}
	if ex.timedOut {
		inconclusive = append(inconclusive, "wall-clock limit reached")
	}
	if ex.Unknowns > 0 {
		inconclusive = append(inconclusive, fmt.Sprintf("%d solver queries returned unknown", ex.Unknowns))
	}
	if len(ex.SolverErrs) > 0 {
		inconclusive = append(inconclusive, fmt.Sprintf("%d solver errors, first: %s", len(ex.SolverErrs), ex.SolverErrs[0]))
	}

	// 3. native replay of every violation + conformance sample of completed paths
	var cases []ReplayCase
	for _, v := range newVios {
		cases = append(cases, ReplayCase{Harness: v.Harness, Tape: v.Tape})
	}
	nVio := len(cases)
	cases = append(cases, confCases...)
	// a path that exhausted its budget is replayed alone, with a short deadline: reproduced means that
	// the real build does not come back either (killed by the deadline or dead of memory exhaustion)
	budgetRes := map[int]*ReplayResult{}
	if !*noReplay {
		for i, v := range newVios {
			if v.Kind != "budget" {
				continue
			}
			replayTimeout = "10s"
			rs, _, err := nativeReplay(*repo, realFiles, allNames, []ReplayCase{{Harness: v.Harness, Tape: v.Tape}}, scratch, nil)
			replayTimeout = "30m"
			if err == nil && len(rs) == 1 {
				budgetRes[i] = &rs[0]
			}
			cases[i].Harness = "" // not run again in the batch
		}
	}
	var results []ReplayResult
	replayS := 0.0
	if !*noReplay && len(cases) > 0 {
		t2 := time.Now()
		var outText string
		results, outText, err = nativeReplay(*repo, realFiles, allNames, cases, scratch, nil)
		replayS = time.Since(t2).Seconds()
		if err != nil {
			inconclusive = append(inconclusive, "native replay failed: "+err.Error()+": "+lastLines(outText, 15))
			results = nil
		}
	}
	confirmed := 0
	disagree := 0
	validated := 0
	var reportLines []string
	exitCode := 0
	os.MkdirAll(filepath.Join(outDir, "replays", *prop), 0o755)
	for i, v := range newVios {
		var nr *ReplayResult
		ok := false
		if results != nil {
			nr = &results[i]
			if v.Kind == "budget" {
				nr = budgetRes[i]
				ok = nr != nil && nr.Crashed
			}
			switch v.Kind {
			case "assert":
				ok = contains(nr.Fails, v.ID)
			case "panic":
				ok = nr.Panicked
			case "event":
				// memory-safety events have no native observable; attested by the engine's memory model
				ok = !nr.AssumeFailed && nr.Mismatch == ""
			}
		} else if *noReplay {
			ok = true
		}
		if !ok && v.Kind == "budget" {
			// the real build came back: the budget was the interpreter's, the path stays inconclusive
			continue
		}
		if !ok {
			disagree++
			d := ""
			if nr != nil {
				d = fmt.Sprintf(" native: fails=%v panicked=%v(%s) mismatch=%q assumeFailed=%v", nr.Fails, nr.Panicked, nr.PanicMsg, nr.Mismatch, nr.AssumeFailed)
			}
			inconclusive = append(inconclusive, fmt.Sprintf("ENGINE-DISAGREEMENT %s/%s tape=%s%s", v.Harness, v.ID, tapeString(v.Tape), d))
			continue
		}
		confirmed++
		kf := matchKnown(known, *prop, v.Harness, v.ID)
		if kf != nil {
			knownFired = append(knownFired, fmt.Sprintf("KNOWN-FINDING: property=%s %s/%s %s", *prop, v.Harness, v.ID, kf.What))
			continue
		}
		rf := ReplayFile{Property: *prop, Harness: v.Harness, Assert: v.ID, Kind: v.Kind, Detail: v.Detail, Tape: v.Tape, TapeText: tapeString(v.Tape), Native: nr}
		path := filepath.Join(outDir, "replays", *prop, safeName.ReplaceAllString(v.Harness+"__"+v.ID, "_")+".json")
		rf.Cmd = "/verif/bin/gosx replay " + path
		data, _ := json.MarshalIndent(&rf, "", " ")
		os.WriteFile(path, data, 0o644)
		reportLines = append(reportLines, fmt.Sprintf("VIOLATION property=%s replay=%s", *prop, path))
		if *verbose || true {
			reportLines = append(reportLines, fmt.Sprintf("  %s/%s [%s] %s tape=%s", v.Harness, v.ID, v.Kind, v.Detail, tapeString(v.Tape)))
		}
		exitCode = 1
	}
	if results != nil {
		for j, exp := range confExpect {
			nr := results[nVio+j]
			exf := exp.Fails
			sort.Strings(nr.Fails)
			nf := dedupe(nr.Fails)
			same := strings.Join(exf, ",") == strings.Join(nf, ",") && nr.Panicked == exp.Panicked && !nr.AssumeFailed && nr.Mismatch == "" && !nr.Exhausted &&
				strings.Join(exp.Observes, "|") == strings.Join(nr.Observes, "|")
			if same {
				validated++
			} else {
				disagree++
				inconclusive = append(inconclusive, fmt.Sprintf("CONFORMANCE-DISAGREEMENT %s tape=%s engine: fails=%v panicked=%v obs=%v native: fails=%v panicked=%v(%s) obs=%v mismatch=%q assumeFailed=%v exhausted=%v",
					exp.Harness, tapeString(exp.Tape), exf, exp.Panicked, exp.Observes, nf, nr.Panicked, nr.PanicMsg, nr.Observes, nr.Mismatch, nr.AssumeFailed, nr.Exhausted))
			}
		}
	}

	// static obligations (C08): decided exactly from the layouts, nothing to replay
	for i := range staticVios {
		v := &staticVios[i]
		if kf := matchKnown(known, *prop, v.Harness, v.ID); kf != nil {
			knownFired = append(knownFired, fmt.Sprintf("KNOWN-FINDING: property=%s %s/%s %s", *prop, v.Harness, v.ID, kf.What))
			continue
		}
		rf := ReplayFile{Property: *prop, Harness: v.Harness, Assert: v.ID, Kind: v.Kind, Detail: v.Detail}
		path := filepath.Join(outDir, "replays", *prop, safeName.ReplaceAllString(v.Harness+"__"+v.ID, "_")+".json")
		rf.Cmd = "/verif/bin/gosx check -prop C08"
		data, _ := json.MarshalIndent(&rf, "", " ")
		os.WriteFile(path, data, 0o644)
		reportLines = append(reportLines, fmt.Sprintf("VIOLATION property=%s replay=%s", *prop, path))
		reportLines = append(reportLines, fmt.Sprintf("  %s/%s [static] %s", v.Harness, v.ID, v.Detail))
		exitCode = 1
	}
	wall := time.Since(t0).Seconds()
	// 4. report
	sort.Strings(knownFired)
	for _, l := range knownFired {
		fmt.Println(l)
	}
	for _, l := range reportLines {
		fmt.Println(l)
	}
	if exitCode == 0 && len(inconclusive) > 0 {
		exitCode = 2
	}
	for i, l := range inconclusive {
		if i >= 30 {
			fmt.Printf("INCONCLUSIVE: ... %d more\n", len(inconclusive)-i)
			break
		}
		fmt.Println("INCONCLUSIVE:", l)
	}
	fmt.Printf("%s %s: harnesses=%d paths=%d decisions=%d (domain %d, solver %d) queries=%d solver=%.1fs violations=%d (known %d) validated=%d load=%.1fs explore=%.1fs replay=%.1fs wall=%.1fs exit=%d\n",
		*prop, *tier, len(hs), states, transitions, domDec, solDec, ex.Queries, ex.SolverT.Seconds(), len(newVios), len(knownFired), validated, loadS, exploreS, replayS, wall, exitCode)

	// 5. evidence
	var funcs []string
	for f := range ex.funcs {
		if strings.HasPrefix(f, mainPkgPath) || strings.HasPrefix(f, "(*"+mainPkgPath) || strings.HasPrefix(f, "("+mainPkgPath) {
			if !strings.Contains(f, ".vp") {
				funcs = append(funcs, strings.ReplaceAll(f, mainPkgPath+".", ""))
			}
		}
	}
	sort.Strings(funcs)
	nOther := len(ex.funcs) - len(funcs)
	if len(samples) == 0 {
		samples = append(samples, "none")
	}
	ev := map[string]interface{}{
		"property_id": *prop,
		"tier":        *tier,
		"seed":        seed,
		"level":       "model_checking",
		"wall_s":      wall,
		"violations":  len(reportLines) / 2,
		"coverage": map[string]interface{}{
			"states":                        states,
			"transitions":                   transitions,
			"transitions_domain_decided":    domDec,
			"transitions_solver_decided":    solDec,
			"traces_validated_against_impl": validated,
			"violations_replayed_natively":  confirmed,
			"engine_disagreements":          disagree,
			"samples":                       samples,
			"harnesses":                     harnessNames,
			"harness_definitions":           harnessDefinitions(snapDir, harnessNames),
			"functions_encoded":             funcs,
			"functions_encoded_other_packages": nOther,
			"ssa_instructions_interpreted":  totalSteps,
			"bounds":                        propBounds(*prop, *tier, cfg),
			"queries":                       ex.Queries,
			"solver":                        solverVersion(cfg.Solver) + " (one incremental process per worker, push/pop)",
			"solver_time_s":                 ex.SolverT.Seconds(),
			"solver_unknown":                ex.Unknowns,
			"limits_hit":                    inconclusive,
			"vacuity_witnesses":             vacuity,
			"twins_violated":                twinsViolated,
			"known_findings_fired":          knownFired,
			"static_cast_sites":             staticSites,
			"static_cast_obligations":       staticDescr,
			"exhaustive":                    false,
			"evaluations":                   states,
			"distinct_nontrivial":           states,
			"rule":                          "one case = one completed symbolic path (a distinct sequence of branch outcomes) of a harness; each path stands for every input satisfying its path condition",
		},
		"assumptions": propAssumptions(*prop),
	}
	os.MkdirAll(filepath.Join(outDir, "evidence"), 0o755)
	data, _ := json.MarshalIndent(ev, "", " ")
	os.WriteFile(filepath.Join(outDir, "evidence", *prop+".json"), data, 0o644)
	os.RemoveAll(scratch)
	os.Exit(exitCode)
}

func dedupe(xs []string) []string {
	var out []string
	for i, x := range xs {
		if i == 0 || x != xs[i-1] {
			out = append(out, x)
		}
	}
	return out
}

func lastLines(s string, n int) string {
	lines := strings.Split(strings.TrimSpace(s), "\n")
	if len(lines) > n {
		lines = lines[len(lines)-n:]
	}
	return strings.Join(lines, " | ")
}

func envOr(k, d string) string {
	if v := os.Getenv(k); v != "" {
		return v
	}
	return d
}

func fatal(err error) {
	fmt.Fprintln(os.Stderr, "gosx:", err)
	os.Exit(2)
}

func loadKnown() []KnownFinding {
	data, err := os.ReadFile(filepath.Join(verifDir, "known_findings.json"))
	if err != nil {
		return nil
	}
	var k []KnownFinding
	if err := json.Unmarshal(data, &k); err != nil {
		fatal(fmt.Errorf("known_findings.json: %v", err))
	}
	return k
}

func matchKnown(known []KnownFinding, prop, harness, assert string) *KnownFinding {
	for i := range known {
		k := &known[i]
		if k.Status == "known" && k.Property == prop && k.Harness == harness && k.Assert == assert {
			return k
		}
	}
	return nil
}

func writeEvidenceFailure(prop, tier string, seed int, wall float64, msg string) {
	ev := map[string]interface{}{
		"property_id": prop, "tier": tier, "seed": seed, "level": "other", "wall_s": wall,
		"coverage": map[string]interface{}{"explanation": "run was inconclusive: " + msg},
	}
	os.MkdirAll(filepath.Join(outDir, "evidence"), 0o755)
	data, _ := json.MarshalIndent(ev, "", " ")
	os.WriteFile(filepath.Join(outDir, "evidence", prop+".json"), data, 0o644)
}

func cmdReplay(args []string) {
	if len(args) < 1 {
		fatal(fmt.Errorf("replay <file>"))
	}
	repo := envOr("VERIF_REPO", "/repo")
	data, err := os.ReadFile(args[0])
	if err != nil {
		fatal(err)
	}
	var rf ReplayFile
	if err := json.Unmarshal(data, &rf); err != nil {
		fatal(err)
	}
	scratch, _ := os.MkdirTemp("", "vp-replay-")
	defer os.RemoveAll(scratch)
	genDir := filepath.Join(scratch, "gen")
	os.MkdirAll(genDir, 0o755)
	if err := generateHarnesses(repo, rf.Property, genDir); err != nil {
		fatal(err)
	}
	_, realFiles, err := overlayFrom(repo, "", filepath.Join(verifDir, "harness"), genDir)
	if err != nil {
		fatal(err)
	}
	if rf.Kind == "budget" {
		replayTimeout = "10s"
	}
	res, out, err := nativeReplay(repo, realFiles, []string{rf.Harness}, []ReplayCase{{Harness: rf.Harness, Tape: rf.Tape}}, scratch, nil)
	if err != nil {
		fmt.Println(out)
		fatal(err)
	}
	r := res[0]
	fmt.Printf("harness %s tape %s\nnative: fails=%v panicked=%v %s\n", rf.Harness, tapeString(rf.Tape), r.Fails, r.Panicked, r.PanicMsg)
	reproduced := false
	switch rf.Kind {
	case "assert":
		reproduced = contains(r.Fails, rf.Assert)
	case "panic":
		reproduced = r.Panicked
	case "budget":
		reproduced = r.Crashed // did not come back within the deadline (or died of memory exhaustion)
	}
	if reproduced {
		fmt.Printf("REPRODUCED %s/%s\n", rf.Harness, rf.Assert)
		os.Exit(1)
	}
	fmt.Println("not reproduced")
}

// defaultSolver: z3 5.1.0 decides the byte-level queries of the JSON properties two orders of
// magnitude faster than 4.8.12; 4.8.12 and cvc5 are the cross-check solvers (tools/crosscheck.py).
const defaultSolver = "z3-new"

func solverVersion(name string) string {
	bin, _ := solverArgs(name, 1000)
	out, err := exec.Command(bin, "--version").Output()
	if err != nil {
		return name
	}
	return strings.TrimSpace(strings.SplitN(string(out), "\n", 2)[0])
}

// harnessDefinitions returns, for each harness that ran, its definition as written in the harness
// sources of this run: the body of a one-line harness (which carries its bound parameters), or the
// comment above a longer one.
func harnessDefinitions(dir string, names []string) map[string]string {
	want := map[string]bool{}
	for _, n := range names {
		want[n] = true
	}
	out := map[string]string{}
	ents, _ := os.ReadDir(dir)
	oneLine := regexp.MustCompile(`^func (vp[HTW]_\w+)\(\)\s*\{\s*(.*?)\s*\}\s*$`)
	open := regexp.MustCompile(`^func (vp[HTW]_\w+)\(\)\s*\{\s*$`)
	for _, e := range ents {
		data, err := os.ReadFile(filepath.Join(dir, e.Name()))
		if err != nil {
			continue
		}
		lines := strings.Split(string(data), "\n")
		for i, l := range lines {
			if m := oneLine.FindStringSubmatch(l); m != nil && want[m[1]] {
				out[m[1]] = m[2]
				continue
			}
			if m := open.FindStringSubmatch(l); m != nil && want[m[1]] {
				var doc []string
				for j := i - 1; j >= 0 && strings.HasPrefix(lines[j], "//"); j-- {
					doc = append([]string{strings.TrimSpace(strings.TrimPrefix(lines[j], "//"))}, doc...)
				}
				out[m[1]] = strings.Join(doc, " ")
			}
		}
	}
	return out
}
