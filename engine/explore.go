package main

import (
	"fmt"
	"os"
	"sort"
	"strings"
	"sync"
	"time"

	"golang.org/x/tools/go/ssa"
)

type Config struct {
	// BudgetIsViolation: a path that exhausts its instruction budget is also recorded as a violation
	// candidate of kind "budget" (the check reports it only when the native replay of its tape does
	// not come back either); for the property that demands termination
	BudgetIsViolation bool
	MaxPaths        int   // per harness
	MaxSteps        int64 // per path
	MaxDecisions    int   // per path
	SolverTimeoutMs int
	MapOrderAll     bool
	Workers         int
	Solver          string
	Verbose         bool
}

type Draw struct {
	Kind string `json:"k"` // "byte", "choice", "u64"
	Sym  int    `json:"-"`
	W    uint8  `json:"-"`
	Val  uint64 `json:"v"`
	N    int    `json:"n,omitempty"`
	Off  int64  `json:"-"`
}

type Violation struct {
	Harness string `json:"harness"`
	ID      string `json:"assert"`
	Kind    string `json:"kind"` // assert, panic, event
	Detail  string `json:"detail"`
	Tape    []Draw `json:"tape"`
	Pos     string `json:"pos,omitempty"`
}

type assertRec struct {
	id   string
	cond *Term
}

type obsRec struct {
	id  string
	val Value
}

type PathResult struct {
	Harness    string
	Trace      []byte
	Status     string // done, panic, infeasible, limit, unmodelled, corrupt
	Detail     string
	Violations []Violation
	Tape       []Draw
	Fails      []string // assert ids predicted to fail under Tape
	Panicked   bool
	Reached    []string
	Observes   []string
	Steps      int64
	Decisions  int
	DomDecided int
	SolDecided int
}

type PathState struct {
	harness   string
	prefix    []byte
	trace     []byte
	pc        []*Term
	pending   []*Term
	domains   map[int]*bset
	entangled map[int]bool
	nsyms     int
	symW      map[int]uint8
	draws     []Draw
	pushed    bool
	needSolver bool
	asserts   []assertRec
	reached   []string
	observes  []obsRec
	violations []Violation
	vioSeen   map[string]bool
	domDecided int
	solDecided int
	inconclusive []string
	mayPanicDepth int
	eventsOff bool
	notes     []string
	sites     map[*mergeSite]*siteStat
	masks     map[*Term]bset
}

type task struct {
	h      int
	prefix []byte
}

type HarnessStat struct {
	Name       string
	Paths      int
	Done       int
	Infeasible int
	Aborted    map[string]int
	AbortEx    map[string]string
	Reached    map[string]int
	Violations map[string]*Violation // by assert id (first)
	VioCount   map[string]int
	Steps      int64
	Decisions  int
	DomDecided int
	SolDecided int
	Samples    []PathResult
	Limit      bool
	mu         sync.Mutex
}

type Explorer struct {
	p        *Program
	cfg      Config
	harness  []*ssa.Function
	stats    []*HarnessStat
	mu       sync.Mutex
	cond     *sync.Cond
	queue    []task
	busy     int
	stopped  bool
	results  []PathResult // sampled, for conformance
	keepAll  bool
	Queries  int
	SolverT  time.Duration
	Unknowns int
	SolverErrs []string
	funcs    map[string]bool
	deadline time.Time
	timedOut bool
}

type Worker struct {
	ex     *Explorer
	it     *Interp
	solver *Solver
	cfg    Config
	id     int
	curH   int
}

func NewExplorer(p *Program, cfg Config, hs []*ssa.Function) *Explorer {
	ex := &Explorer{p: p, cfg: cfg, harness: hs, funcs: map[string]bool{}}
	ex.cond = sync.NewCond(&ex.mu)
	for _, h := range hs {
		ex.stats = append(ex.stats, &HarnessStat{Name: h.Name(), Aborted: map[string]int{}, AbortEx: map[string]string{}, Reached: map[string]int{}, Violations: map[string]*Violation{}, VioCount: map[string]int{}})
	}
	return ex
}

func (ex *Explorer) Run() {
	for i := range ex.harness {
		ex.queue = append(ex.queue, task{h: i})
	}
	var wg sync.WaitGroup
	for w := 0; w < ex.cfg.Workers; w++ {
		wg.Add(1)
		go func(id int) {
			defer wg.Done()
			wk := &Worker{ex: ex, cfg: ex.cfg, id: id}
			wk.run()
		}(w)
	}
	wg.Wait()
}

func (ex *Explorer) pop() (task, bool) {
	ex.mu.Lock()
	defer ex.mu.Unlock()
	for {
		if !ex.deadline.IsZero() && time.Now().After(ex.deadline) {
			ex.timedOut = true
			ex.stopped = true
			ex.cond.Broadcast()
			return task{}, false
		}
		if ex.stopped {
			return task{}, false
		}
		if n := len(ex.queue); n > 0 {
			t := ex.queue[n-1]
			ex.queue = ex.queue[:n-1]
			ex.busy++
			return t, true
		}
		if ex.busy == 0 {
			ex.stopped = true
			ex.cond.Broadcast()
			return task{}, false
		}
		ex.cond.Wait()
	}
}

func (ex *Explorer) push(t task) {
	ex.mu.Lock()
	ex.queue = append(ex.queue, t)
	ex.mu.Unlock()
	ex.cond.Signal()
}

func (ex *Explorer) done() {
	ex.mu.Lock()
	ex.busy--
	if ex.busy == 0 && len(ex.queue) == 0 {
		ex.cond.Broadcast()
	}
	ex.mu.Unlock()
}

func (wk *Worker) run() {
	var err error
	wk.solver, err = NewSolver(wk.cfg.Solver, wk.cfg.SolverTimeoutMs)
	if err != nil {
		panic(err)
	}
	defer wk.solver.Close()
	wk.it = NewInterp(wk.ex.p)
	wk.it.w = wk
	wk.it.maxSteps = wk.cfg.MaxSteps
	t0 := time.Now()
	wk.it.runInit()
	if wk.id == 0 && wk.cfg.Verbose {
		fmt.Fprintf(os.Stderr, "init: %d steps in %v\n", wk.it.initSteps, time.Since(t0))
	}
	for {
		t, ok := wk.ex.pop()
		if !ok {
			break
		}
		st := wk.ex.stats[t.h]
		st.mu.Lock()
		if st.Paths >= wk.cfg.MaxPaths {
			st.Limit = true
			st.mu.Unlock()
			wk.ex.done()
			continue
		}
		st.Paths++
		st.mu.Unlock()
		res := wk.runPath(t)
		wk.record(t.h, res)
		wk.ex.done()
	}
	wk.ex.mu.Lock()
	wk.ex.Queries += wk.solver.Queries
	wk.ex.SolverT += wk.solver.Time
	wk.ex.Unknowns += wk.solver.Unknown
	wk.ex.SolverErrs = append(wk.ex.SolverErrs, wk.solver.Errors...)
	for f := range wk.it.funcsEntered {
		wk.ex.funcs[f] = true
	}
	wk.ex.mu.Unlock()
}

func (wk *Worker) record(h int, res PathResult) {
	st := wk.ex.stats[h]
	st.mu.Lock()
	defer st.mu.Unlock()
	st.Steps += res.Steps
	st.Decisions += res.Decisions
	st.DomDecided += res.DomDecided
	st.SolDecided += res.SolDecided
	switch res.Status {
	case "done", "panic":
		st.Done++
	case "infeasible":
		st.Infeasible++
	default:
		st.Aborted[res.Status]++
		if _, ok := st.AbortEx[res.Status]; !ok {
			st.AbortEx[res.Status] = res.Detail
		}
	}
	for _, r := range res.Reached {
		st.Reached[r]++
	}
	for i := range res.Violations {
		v := res.Violations[i]
		st.VioCount[v.ID]++
		if _, ok := st.Violations[v.ID]; !ok {
			st.Violations[v.ID] = &v
		}
	}
	if (res.Status == "done" || res.Status == "panic") && (len(st.Samples) < 40 || wk.ex.keepAll) {
		st.Samples = append(st.Samples, res)
	}
}

func (wk *Worker) runPath(t task) (res PathResult) {
	it := wk.it
	fn := wk.ex.harness[t.h]
	ps := &PathState{harness: fn.Name(), prefix: t.prefix, domains: map[int]*bset{}, entangled: map[int]bool{}, symW: map[int]uint8{}, vioSeen: map[string]bool{}, sites: map[*mergeSite]*siteStat{}, masks: map[*Term]bset{}}
	it.ps = ps
	wk.solver.SymW = func(id int) uint8 { return ps.symW[id] }
	wk.curH = t.h
	it.epoch++
	it.steps = 0
	it.depth = 0
	it.journal = it.journal[:0]
	it.gobBlobs = it.gobBlobs[:0]
	it.gobHostile = false
	for k := range it.gobW {
		delete(it.gobW, k)
	}
	for k := range it.gobR {
		delete(it.gobR, k)
	}
	for k := range it.mapSnap {
		delete(it.mapSnap, k)
	}
	base := wk.solver.level
	res.Harness = fn.Name()
	defer func() {
		r := recover()
		switch r := r.(type) {
		case nil:
			res.Status = "done"
		case *pathAbort:
			res.Status = r.kind
			res.Detail = r.detail
			if wk.cfg.BudgetIsViolation && r.kind == "limit" && strings.HasPrefix(r.detail, "instruction budget") {
				func() {
					defer func() { _ = recover() }()
					wk.violation(nil, "terminates-within-budget", "budget", r.detail)
				}()
			}
		case *goPanic:
			res.Status = "panic"
			res.Detail = r.msg + " @ " + r.pos
			res.Panicked = true
			wk.violation(nil, "panic", "panic", r.msg+" @ "+r.pos)
		default:
			// engine bug: convert to an abort so that the run is reported inconclusive
			res.Status = "engine-error"
			res.Detail = fmt.Sprintf("%v", r)
			if wk.cfg.Verbose {
				panic(r)
			}
		}
		if res.Status == "done" || res.Status == "panic" {
			wk.finish(&res)
		}
		res.Trace = ps.trace
		res.Violations = ps.violations
		res.Reached = ps.reached
		res.Steps = it.steps
		res.Decisions = len(ps.trace)
		res.DomDecided = ps.domDecided
		res.SolDecided = ps.solDecided
		if len(ps.inconclusive) > 0 && res.Status == "done" {
			res.Status = "solver-unknown"
			res.Detail = strings.Join(ps.inconclusive, "; ")
		}
		it.undo()
		for _, o := range it.frozenPre {
			o.frozen = false
		}
		it.frozenPre = it.frozenPre[:0]
		wk.solver.PopTo(base)
		it.ps = nil
	}()
	it.call(nil, FuncV{fn: fn}, nil)
	return
}

// undo restores pre-path memory.
func (it *Interp) undo() {
	for i := len(it.journal) - 1; i >= 0; i-- {
		e := it.journal[i]
		if e.m != nil {
			e.m.entries = e.snap
			e.m.idx = e.idx
			e.m.n = e.n
			continue
		}
		*e.cell = e.old
	}
	it.journal = it.journal[:0]
}

// ---- constraints

func (wk *Worker) flush() {
	ps := wk.it.ps
	if !ps.pushed {
		wk.solver.Push()
		ps.pushed = true
	}
	for _, c := range ps.pending {
		wk.solver.Assert(c)
	}
	ps.pending = ps.pending[:0]
}

func (ps *PathState) evalMask(c *Term, dom *bset) bset {
	full, ok := ps.masks[c]
	if !ok {
		env := &evalEnv{}
		for b := 0; b < 256; b++ {
			env.gen = newEvalGen()
			bb := uint64(b)
			env.get = func(int, uint8) uint64 { return bb }
			if c.eval(env) != 0 {
				full.set(b)
			}
		}
		if c.size > 2 {
			ps.masks[c] = full
		}
	}
	return full.and(*dom)
}

func (wk *Worker) addConstraint(c *Term) {
	ps := wk.it.ps
	if c.True() {
		return
	}
	ps.pc = append(ps.pc, c)
	ps.pending = append(ps.pending, c)
	if c.sv >= 0 {
		if dom, ok := ps.domains[int(c.sv)]; ok {
			m := ps.evalMask(c, dom)
			*dom = dom.and(m)
			return
		}
		ps.needSolver = true
		return
	}
	ps.needSolver = true
	syms := map[int]uint8{}
	c.collectSyms(syms, map[*Term]bool{})
	for id := range syms {
		ps.entangled[id] = true
	}
}

// feasible2 decides which of c / not c are satisfiable with the path condition.
func (wk *Worker) feasible2(c *Term) (ft, ff bool) {
	ps := wk.it.ps
	wk.flush()
	wk.solver.Note = "branch at " + wk.it.stackString(wk.it.curFrame)
	r := wk.solver.CheckWith(c)
	switch r {
	case Unsat:
		return false, true
	case Unknown:
		ps.inconclusive = append(ps.inconclusive, "solver unknown on branch condition")
		ft = true
	default:
		ft = true
	}
	r = wk.solver.CheckWith(mkNot(c))
	switch r {
	case Unsat:
		return ft, false
	case Unknown:
		ps.inconclusive = append(ps.inconclusive, "solver unknown on branch condition")
	}
	return ft, true
}

// branch decides a symbolic condition, forking when both outcomes are feasible.
func (it *Interp) branch(fr *frame, c *Term) bool {
	if c.op == OpConst {
		return c.c != 0
	}
	wk := it.w
	ps := it.ps
	if ps == nil {
		panic("symbolic branch outside a path: " + c.String())
	}
	exact := false
	it.curFrame = fr
	if c.sv >= 0 {
		if dom, ok := ps.domains[int(c.sv)]; ok {
			tm := ps.evalMask(c, dom)
			fm := dom.andNot(tm)
			if fm.empty() {
				return true
			}
			if tm.empty() {
				return false
			}
			exact = !ps.entangled[int(c.sv)]
		}
	}
	if it.spec > 0 {
		panic(specFail{"fork"})
	}
	k := len(ps.trace)
	if k >= it.w.cfg.MaxDecisions {
		it.abort("limit", fmt.Sprintf("more than %d decisions on one path at %s", k, it.stackString(fr)))
	}
	var out bool
	if k < len(ps.prefix) {
		out = ps.prefix[k]&1 == 1
		forced := ps.prefix[k]&2 != 0
		b := ps.prefix[k]
		_ = forced
		ps.trace = append(ps.trace, b)
	} else {
		ft, ff := true, true
		if exact {
			ps.domDecided++
		} else {
			ft, ff = wk.feasible2(c)
			ps.solDecided++
		}
		switch {
		case ft && ff:
			out = true
			sib := make([]byte, k+1)
			copy(sib, ps.trace)
			sib[k] = 0
			wk.ex.push(task{h: wk.harnessIndex(), prefix: sib})
			ps.trace = append(ps.trace, 1)
		case ft:
			out = true
			ps.trace = append(ps.trace, 1|2)
		case ff:
			out = false
			ps.trace = append(ps.trace, 0|2)
		default:
			it.abort("infeasible", "both branches infeasible")
		}
	}
	if out {
		wk.addConstraint(c)
	} else {
		wk.addConstraint(mkNot(c))
	}
	return out
}

func (wk *Worker) harnessIndex() int { return wk.curH }

// choice is an n-way nondeterministic choice (all outcomes feasible).
func (it *Interp) choice(fr *frame, n int, record bool) int {
	if it.spec > 0 {
		panic(specFail{"choice"})
	}
	ps := it.ps
	wk := it.w
	if n <= 1 {
		if record {
			ps.draws = append(ps.draws, Draw{Kind: "choice", Sym: -1, Val: 0, N: n})
		}
		return 0
	}
	if n > 250 {
		it.abort("limit", "choice too wide")
	}
	k := len(ps.trace)
	if k >= wk.cfg.MaxDecisions {
		it.abort("limit", fmt.Sprintf("more than %d decisions on one path", k))
	}
	var out int
	if k < len(ps.prefix) {
		out = int(ps.prefix[k])
	} else {
		out = 0
		for o := n - 1; o >= 1; o-- {
			sib := make([]byte, k+1)
			copy(sib, ps.trace)
			sib[k] = byte(o)
			wk.ex.push(task{h: wk.harnessIndex(), prefix: sib})
		}
	}
	ps.trace = append(ps.trace, byte(out))
	if record {
		ps.draws = append(ps.draws, Draw{Kind: "choice", Sym: -1, Val: uint64(out), N: n})
	}
	return out
}

// assume adds c to the path condition, ending the path if it is infeasible.
func (it *Interp) assume(fr *frame, c *Term) {
	if it.spec > 0 {
		panic(specFail{"assume"})
	}
	if c.op == OpConst {
		if c.c == 0 {
			it.abort("infeasible", "assumption false")
		}
		return
	}
	wk := it.w
	ps := it.ps
	if c.sv >= 0 {
		if dom, ok := ps.domains[int(c.sv)]; ok {
			tm := ps.evalMask(c, dom)
			if tm.empty() {
				it.abort("infeasible", "assumption infeasible (domain)")
			}
			if !ps.entangled[int(c.sv)] {
				wk.addConstraint(c)
				return
			}
		}
	}
	// general: one trace entry so that replays skip the query
	k := len(ps.trace)
	if k < len(ps.prefix) {
		ps.trace = append(ps.trace, ps.prefix[k])
	} else {
		wk.flush()
		r := wk.solver.CheckWith(c)
		if r == Unsat {
			it.abort("infeasible", "assumption infeasible")
		}
		if r == Unknown {
			ps.inconclusive = append(ps.inconclusive, "solver unknown on assumption")
		}
		ps.trace = append(ps.trace, 1|2)
	}
	wk.addConstraint(c)
}

// check handles vpAssert: records a violation if not c is feasible, then continues under c.
func (it *Interp) check(fr *frame, id string, c *Term) {
	if it.spec > 0 {
		panic(specFail{"assert"})
	}
	wk := it.w
	ps := it.ps
	ps.asserts = append(ps.asserts, assertRec{id, c})
	if c.op == OpConst {
		if c.c == 0 {
			wk.violation(fr, id, "assert", "assertion is false on this path")
			// nothing further can be assumed; continue (non-fatal)
		}
		return
	}
	nc := mkNot(c)
	// domain shortcut
	if c.sv >= 0 {
		if dom, ok := ps.domains[int(c.sv)]; ok {
			tm := ps.evalMask(c, dom)
			fm := dom.andNot(tm)
			if fm.empty() {
				return
			}
			if !ps.entangled[int(c.sv)] {
				// violation with a model from the domain
				save := *dom
				*dom = fm
				wk.violationDomainOnly(fr, id)
				*dom = save
				if tm.empty() {
					it.abort("infeasible", "assertion never holds on this path")
				}
				wk.addConstraint(c)
				return
			}
		}
	}
	k := len(ps.trace)
	if k < len(ps.prefix) {
		// already examined by the path that first got here
		b := ps.prefix[k]
		ps.trace = append(ps.trace, b)
		if b&4 != 0 { // assertion can never hold here
			it.abort("infeasible", "assertion never holds on this path")
		}
		wk.addConstraint(c)
		return
	}
	wk.flush()
	ps.solDecided++
	wk.solver.Note = "assert " + id + " at " + it.posString(fr)
	r := wk.solver.CheckWith(nc)
	if r == Unknown {
		ps.inconclusive = append(ps.inconclusive, "solver unknown on assertion "+id)
	}
	if r == Sat {
		// get a model for the violation
		wk.solver.Push()
		wk.solver.Assert(nc)
		if wk.solver.Check() == Sat {
			tape := wk.tapeFromSolver()
			wk.addViolation(fr, id, "assert", "assertion can fail", tape)
		}
		wk.solver.Pop()
		// can it also hold?
		r2 := wk.solver.CheckWith(c)
		if r2 == Unsat {
			ps.trace = append(ps.trace, 1|2|4)
			it.abort("infeasible", "assertion never holds on this path")
		}
	}
	ps.trace = append(ps.trace, 1|2)
	wk.addConstraint(c)
}

// ---- models and tapes

func niceByte(d *bset) int {
	for _, r := range [][2]int{{'a', 'z'}, {'0', '9'}, {'A', 'Z'}, {0x20, 0x7e}} {
		for b := r[0]; b <= r[1]; b++ {
			if d.has(b) {
				return b
			}
		}
	}
	return d.first()
}

func (wk *Worker) tapeFromDomains() []Draw {
	ps := wk.it.ps
	tape := make([]Draw, len(ps.draws))
	for i, d := range ps.draws {
		tape[i] = d
		if d.Sym >= 0 {
			if dom, ok := ps.domains[d.Sym]; ok {
				tape[i].Val = uint64(niceByte(dom))
			} else {
				tape[i].Val = 0
			}
			tape[i].Val += uint64(d.Off)
		}
	}
	return tape
}

func (wk *Worker) tapeFromSolver() []Draw {
	ps := wk.it.ps
	syms := map[int]uint8{}
	for _, d := range ps.draws {
		if d.Sym >= 0 {
			syms[d.Sym] = d.W
		}
	}
	vals, err := wk.solver.Values(syms)
	if err != nil {
		ps.inconclusive = append(ps.inconclusive, err.Error())
		return nil
	}
	tape := make([]Draw, len(ps.draws))
	for i, d := range ps.draws {
		tape[i] = d
		if d.Sym >= 0 {
			if v, ok := vals[d.Sym]; ok && wk.solver.symDeclared(d.Sym) {
				tape[i].Val = v
			} else if dom, ok := ps.domains[d.Sym]; ok {
				tape[i].Val = uint64(niceByte(dom))
			}
			tape[i].Val += uint64(d.Off)
		}
	}
	return tape
}

// currentTape returns a model of the current path condition as a tape.
func (wk *Worker) currentTape() []Draw {
	ps := wk.it.ps
	if !ps.needSolver && !ps.pushed {
		return wk.tapeFromDomains()
	}
	wk.flush()
	r := wk.solver.Check()
	if r != Sat {
		if r == Unknown {
			ps.inconclusive = append(ps.inconclusive, "solver unknown on final model")
		} else {
			ps.inconclusive = append(ps.inconclusive, "path condition unsat at end of path (engine bug?)")
		}
		return nil
	}
	return wk.tapeFromSolver()
}

func (wk *Worker) violationDomainOnly(fr *frame, id string) {
	ps := wk.it.ps
	var tape []Draw
	if !ps.needSolver && !ps.pushed {
		tape = wk.tapeFromDomains()
	} else {
		// domain of this symbol is exact but other constraints live in the solver
		wk.flush()
		wk.solver.Push()
		// the temporarily narrowed domain is not in the solver: assert it through the assertion itself
		last := ps.asserts[len(ps.asserts)-1]
		wk.solver.Assert(mkNot(last.cond))
		if wk.solver.Check() == Sat {
			tape = wk.tapeFromSolver()
		}
		wk.solver.Pop()
	}
	wk.addViolation(fr, id, "assert", "assertion can fail", tape)
}

func (wk *Worker) violation(fr *frame, id, kind, detail string) {
	tape := wk.currentTape()
	wk.addViolation(fr, id, kind, detail, tape)
}

func (wk *Worker) addViolation(fr *frame, id, kind, detail string, tape []Draw) {
	ps := wk.it.ps
	if ps.vioSeen[id] {
		return
	}
	ps.vioSeen[id] = true
	pos := ""
	if fr != nil {
		pos = wk.it.posString(fr)
	}
	ps.violations = append(ps.violations, Violation{Harness: ps.harness, ID: id, Kind: kind, Detail: detail, Tape: tape, Pos: pos})
}

func (it *Interp) event(fr *frame, kind, detail string) {
	if it.ps == nil {
		return
	}
	if it.spec > 0 {
		panic(specFail{"event"})
	}
	if it.ps.eventsOff {
		return
	}
	it.w.violation(fr, "event:"+kind, "event", kind+": "+detail+" @ "+it.stackString(fr))
}

// finish computes the final tape and predicted assertion outcomes.
func (wk *Worker) finish(res *PathResult) {
	ps := wk.it.ps
	tape := wk.currentTape()
	res.Tape = tape
	if tape == nil {
		return
	}
	vals := map[int]uint64{}
	for _, d := range tape {
		if d.Sym >= 0 {
			vals[d.Sym] = d.Val - uint64(d.Off)
		}
	}
	env := &evalEnv{gen: newEvalGen(), get: func(id int, w uint8) uint64 { return vals[id] }}
	seen := map[string]bool{}
	for _, a := range ps.asserts {
		if a.cond.eval(env) == 0 && !seen[a.id] {
			seen[a.id] = true
			res.Fails = append(res.Fails, a.id)
		}
	}
	sort.Strings(res.Fails)
	for _, o := range ps.observes {
		res.Observes = append(res.Observes, o.id+"="+renderValue(o.val, env))
	}
}

func renderValue(v Value, env *evalEnv) string {
	switch x := v.(type) {
	case *Term:
		if x.w == 0 {
			if x.eval(env) != 0 {
				return "true"
			}
			return "false"
		}
		return fmt.Sprintf("%d", sext64(x.eval(env), x.w))
	case Str:
		b := make([]byte, len(x.b))
		for i, c := range x.b {
			b[i] = byte(c.(*Term).eval(env))
		}
		return fmt.Sprintf("%q", string(b))
	case Slice:
		if x.obj == nil {
			return "nil"
		}
		parts := make([]string, len(x.a))
		allBytes := true
		for i, e := range x.a {
			if t, ok := e.(*Term); !ok || t.w != 8 {
				allBytes = false
			}
			parts[i] = renderValue(e, env)
		}
		if allBytes {
			b := make([]byte, len(x.a))
			for i, c := range x.a {
				b[i] = byte(c.(*Term).eval(env))
			}
			return fmt.Sprintf("%q", string(b))
		}
		return "[" + strings.Join(parts, ",") + "]"
	case float64:
		return fmt.Sprintf("%v", x)
	case Iface:
		if x.t == nil {
			return "nil"
		}
		return x.t.name + ":" + renderValue(x.v, env)
	}
	return fmt.Sprintf("<%T>", v)
}

// note records a diagnostic that is not a violation by itself.
func (it *Interp) note(fr *frame, kind, detail string) {
	if it.ps == nil || it.spec > 0 {
		return
	}
	it.ps.notes = append(it.ps.notes, kind+": "+detail)
}
