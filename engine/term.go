package main

// Terms: hash-free DAG of bit-vector / boolean SMT expressions with eager
// constant folding. Width 0 means Bool.

import (
	"fmt"
	"math/bits"
	"strings"
	"sync/atomic"
)

type Op uint8

const (
	OpConst Op = iota
	OpSym
	OpAdd
	OpSub
	OpMul
	OpUDiv
	OpSDiv
	OpURem
	OpSRem
	OpAnd
	OpOr
	OpXor
	OpShl
	OpLShr
	OpAShr
	OpNot // bvnot
	OpNeg
	OpEq
	OpUlt
	OpUle
	OpSlt
	OpSle
	OpBAnd
	OpBOr
	OpBNot
	OpIte
	OpZext
	OpSext
	OpTrunc
	OpTbl // table lookup: tbl[x], x any width, result width w
)

var opNames = [...]string{"const", "sym", "bvadd", "bvsub", "bvmul", "bvudiv", "bvsdiv", "bvurem", "bvsrem",
	"bvand", "bvor", "bvxor", "bvshl", "bvlshr", "bvashr", "bvnot", "bvneg", "=", "bvult", "bvule", "bvslt", "bvsle",
	"and", "or", "not", "ite", "zext", "sext", "trunc", "tbl"}

type Term struct {
	op   Op
	w    uint8
	sv   int32 // -1 no symbol, >=0 exactly that symbol, -2 several
	c    uint64
	x, y *Term
	z    *Term
	tbl  []uint64
	id   uint32
	evg  uint32
	ev   uint64
	size uint32
}

const (
	svNone  = -1
	svMulti = -2
)

var termIDs uint32

var (
	constBytes [256]*Term
	constInts  [512]*Term // -256..255 as 64-bit
	tTrue      = &Term{op: OpConst, w: 0, c: 1, sv: svNone}
	tFalse     = &Term{op: OpConst, w: 0, c: 0, sv: svNone}
)

func init() {
	for i := range constBytes {
		constBytes[i] = &Term{op: OpConst, w: 8, c: uint64(i), sv: svNone}
	}
	for i := range constInts {
		constInts[i] = &Term{op: OpConst, w: 64, c: uint64(int64(i - 256)), sv: svNone}
	}
}

func mask(w uint8) uint64 {
	if w >= 64 {
		return ^uint64(0)
	}
	if w == 0 {
		return 1
	}
	return (uint64(1) << w) - 1
}

func mkConst(w uint8, c uint64) *Term {
	c &= mask(w)
	switch w {
	case 0:
		if c != 0 {
			return tTrue
		}
		return tFalse
	case 8:
		return constBytes[c]
	case 64:
		if int64(c) >= -256 && int64(c) < 256 {
			return constInts[int64(c)+256]
		}
	}
	return &Term{op: OpConst, w: w, c: c, sv: svNone}
}

func mkBool(b bool) *Term {
	if b {
		return tTrue
	}
	return tFalse
}

func mkSym(w uint8, id int) *Term {
	return &Term{op: OpSym, w: w, c: uint64(id), sv: int32(id), size: 1}
}

func (t *Term) IsConst() bool { return t.op == OpConst }
func (t *Term) True() bool    { return t.op == OpConst && t.c != 0 }
func (t *Term) False() bool   { return t.op == OpConst && t.c == 0 }

// signed value of a constant
func (t *Term) S() int64 {
	return sext64(t.c, t.w)
}
func sext64(c uint64, w uint8) int64 {
	if w >= 64 || w == 0 {
		return int64(c)
	}
	sh := 64 - uint(w)
	return int64(c<<sh) >> sh
}

func joinSV(a, b int32) int32 {
	if a == svNone {
		return b
	}
	if b == svNone {
		return a
	}
	if a == b {
		return a
	}
	return svMulti
}

func newNode(op Op, w uint8, x, y, z *Term) *Term {
	t := &Term{op: op, w: w, x: x, y: y, z: z, id: atomic.AddUint32(&termIDs, 1)}
	sv := int32(svNone)
	sz := uint32(1)
	if x != nil {
		sv = joinSV(sv, x.sv)
		sz += x.size
	}
	if y != nil {
		sv = joinSV(sv, y.sv)
		sz += y.size
	}
	if z != nil {
		sv = joinSV(sv, z.sv)
		sz += z.size
	}
	if sz > 1<<30 {
		sz = 1 << 30
	}
	t.sv = sv
	t.size = sz
	return t
}

func evalBin(op Op, w uint8, a, b uint64) uint64 {
	m := mask(w)
	switch op {
	case OpAdd:
		return (a + b) & m
	case OpSub:
		return (a - b) & m
	case OpMul:
		return (a * b) & m
	case OpUDiv:
		if b == 0 {
			return m
		}
		return a / b
	case OpURem:
		if b == 0 {
			return a
		}
		return a % b
	case OpSDiv:
		sa, sb := sext64(a, w), sext64(b, w)
		if sb == 0 {
			if sa < 0 {
				return 1
			}
			return m
		}
		if sb == -1 {
			return uint64(-sa) & m
		}
		return uint64(sa/sb) & m
	case OpSRem:
		sa, sb := sext64(a, w), sext64(b, w)
		if sb == 0 {
			return a
		}
		if sb == -1 {
			return 0
		}
		return uint64(sa%sb) & m
	case OpAnd:
		return a & b
	case OpOr:
		return a | b
	case OpXor:
		return a ^ b
	case OpShl:
		if b >= uint64(w) {
			return 0
		}
		return (a << b) & m
	case OpLShr:
		if b >= uint64(w) {
			return 0
		}
		return a >> b
	case OpAShr:
		sa := sext64(a, w)
		if b >= uint64(w) {
			if sa < 0 {
				return m
			}
			return 0
		}
		return uint64(sa>>b) & m
	case OpEq:
		if a == b {
			return 1
		}
		return 0
	case OpUlt:
		if a < b {
			return 1
		}
		return 0
	case OpUle:
		if a <= b {
			return 1
		}
		return 0
	case OpSlt:
		if sext64(a, w) < sext64(b, w) {
			return 1
		}
		return 0
	case OpSle:
		if sext64(a, w) <= sext64(b, w) {
			return 1
		}
		return 0
	case OpBAnd:
		return a & b & 1
	case OpBOr:
		return (a | b) & 1
	}
	panic("evalBin " + opNames[op])
}

func isCmp(op Op) bool { return op >= OpEq && op <= OpSle }

// mkBin builds a binary bit-vector op; for comparisons the operand width is x.w
// and the result is Bool.
func mkBin(op Op, x, y *Term) *Term {
	if x.w != y.w {
		panic(fmt.Sprintf("mkBin %s width mismatch %d vs %d", opNames[op], x.w, y.w))
	}
	rw := x.w
	if isCmp(op) {
		rw = 0
	}
	if x.op == OpConst && y.op == OpConst {
		return mkConst(rw, evalBin(op, x.w, x.c, y.c))
	}
	// algebraic simplifications
	switch op {
	case OpAdd:
		if x.op == OpConst && x.c == 0 {
			return y
		}
		if y.op == OpConst && y.c == 0 {
			return x
		}
		// (a + c1) + c2
		if y.op == OpConst && x.op == OpAdd && x.y.op == OpConst {
			return mkBin(OpAdd, x.x, mkConst(x.w, x.y.c+y.c))
		}
	case OpSub:
		if y.op == OpConst && y.c == 0 {
			return x
		}
		if x == y {
			return mkConst(rw, 0)
		}
		if y.op == OpConst {
			return mkBin(OpAdd, x, mkConst(x.w, -y.c))
		}
	case OpMul:
		if x.op == OpConst && x.c == 1 {
			return y
		}
		if y.op == OpConst && y.c == 1 {
			return x
		}
		if (x.op == OpConst && x.c == 0) || (y.op == OpConst && y.c == 0) {
			return mkConst(rw, 0)
		}
	case OpAnd:
		if x == y {
			return x
		}
		if x.op == OpConst {
			x, y = y, x
		}
		if y.op == OpConst {
			if y.c == 0 {
				return y
			}
			if y.c == mask(x.w) {
				return x
			}
		}
	case OpOr:
		if x == y {
			return x
		}
		if x.op == OpConst {
			x, y = y, x
		}
		if y.op == OpConst {
			if y.c == 0 {
				return x
			}
			if y.c == mask(x.w) {
				return y
			}
		}
	case OpXor:
		if x == y {
			return mkConst(rw, 0)
		}
		if y.op == OpConst && y.c == 0 {
			return x
		}
		if x.op == OpConst && x.c == 0 {
			return y
		}
	case OpShl, OpLShr, OpAShr:
		if y.op == OpConst && y.c == 0 {
			return x
		}
		if x.op == OpConst && x.c == 0 {
			return x
		}
	case OpEq:
		if x == y {
			return tTrue
		}
		if x.w == 0 { // bool equality
			if y.op == OpConst {
				if y.c != 0 {
					return x
				}
				return mkNot(x)
			}
			if x.op == OpConst {
				if x.c != 0 {
					return y
				}
				return mkNot(y)
			}
		}
		// zext(a) == const : compare at narrow width
		if y.op == OpConst && x.op == OpZext {
			if y.c > mask(x.x.w) {
				return tFalse
			}
			return mkBin(OpEq, x.x, mkConst(x.x.w, y.c))
		}
		if x.op == OpConst && y.op == OpZext {
			return mkBin(OpEq, y, x)
		}
		// ite(c, k1, k2) == k  with constants
		if y.op == OpConst && x.op == OpIte && x.y.op == OpConst && x.z.op == OpConst {
			a := x.y.c == y.c
			b := x.z.c == y.c
			switch {
			case a && b:
				return tTrue
			case a:
				return x.x
			case b:
				return mkNot(x.x)
			default:
				return tFalse
			}
		}
	case OpUlt:
		if x == y {
			return tFalse
		}
		if y.op == OpConst && y.c == 0 {
			return tFalse
		}
		if y.op == OpConst && x.op == OpZext {
			if y.c > mask(x.x.w) {
				return tTrue
			}
			return mkBin(OpUlt, x.x, mkConst(x.x.w, y.c))
		}
		if x.op == OpConst && y.op == OpZext {
			if x.c >= mask(y.x.w) {
				return tFalse
			}
			return mkBin(OpUlt, mkConst(y.x.w, x.c), y.x)
		}
	case OpUle:
		if x == y {
			return tTrue
		}
		if x.op == OpConst && x.c == 0 {
			return tTrue
		}
		if y.op == OpConst && x.op == OpZext {
			if y.c >= mask(x.x.w) {
				return tTrue
			}
			return mkBin(OpUle, x.x, mkConst(x.x.w, y.c))
		}
		if x.op == OpConst && y.op == OpZext {
			if x.c > mask(y.x.w) {
				return tFalse
			}
			return mkBin(OpUle, mkConst(y.x.w, x.c), y.x)
		}
	case OpSlt:
		if x == y {
			return tFalse
		}
		// zext values are non-negative when strictly widened
		if x.op == OpZext && y.op == OpConst && x.w > x.x.w {
			if y.S() <= 0 {
				return tFalse
			}
			return mkBin(OpUlt, x, y)
		}
		if y.op == OpZext && x.op == OpConst && y.w > y.x.w {
			if x.S() < 0 {
				return tTrue
			}
			return mkBin(OpUlt, x, y)
		}
	case OpSle:
		if x == y {
			return tTrue
		}
		if x.op == OpZext && y.op == OpConst && x.w > x.x.w {
			if y.S() < 0 {
				return tFalse
			}
			return mkBin(OpUle, x, y)
		}
		if y.op == OpZext && x.op == OpConst && y.w > y.x.w {
			if x.S() <= 0 {
				return tTrue
			}
			return mkBin(OpUle, x, y)
		}
	}
	return newNode(op, rw, x, y, nil)
}

func mkNot(x *Term) *Term {
	if x.w != 0 {
		panic("mkNot on non-bool")
	}
	if x.op == OpConst {
		return mkBool(x.c == 0)
	}
	if x.op == OpBNot {
		return x.x
	}
	return newNode(OpBNot, 0, x, nil, nil)
}

func mkAnd(x, y *Term) *Term {
	if x.w != 0 || y.w != 0 {
		panic("mkAnd on non-bool")
	}
	if x.op == OpConst {
		if x.c == 0 {
			return tFalse
		}
		return y
	}
	if y.op == OpConst {
		if y.c == 0 {
			return tFalse
		}
		return x
	}
	if x == y {
		return x
	}
	return newNode(OpBAnd, 0, x, y, nil)
}

func mkOr(x, y *Term) *Term {
	if x.w != 0 || y.w != 0 {
		panic("mkOr on non-bool")
	}
	if x.op == OpConst {
		if x.c != 0 {
			return tTrue
		}
		return y
	}
	if y.op == OpConst {
		if y.c != 0 {
			return tTrue
		}
		return x
	}
	if x == y {
		return x
	}
	return newNode(OpBOr, 0, x, y, nil)
}

func mkIte(c, a, b *Term) *Term {
	if c.w != 0 {
		panic("mkIte cond non-bool")
	}
	if a.w != b.w {
		panic("mkIte width mismatch")
	}
	if c.op == OpConst {
		if c.c != 0 {
			return a
		}
		return b
	}
	if a == b {
		return a
	}
	if a.op == OpConst && b.op == OpConst && a.c == b.c {
		return a
	}
	if a.w == 0 && a.op == OpConst && b.op == OpConst {
		if a.c != 0 {
			return c
		}
		return mkNot(c)
	}
	return newNode(OpIte, a.w, c, a, b)
}

func mkUn(op Op, x *Term) *Term {
	if x.op == OpConst {
		switch op {
		case OpNot:
			return mkConst(x.w, ^x.c)
		case OpNeg:
			return mkConst(x.w, -x.c)
		}
	}
	if x.op == op {
		return x.x
	}
	return newNode(op, x.w, x, nil, nil)
}

// mkResize converts x to width w; signed selects sign extension when widening.
func mkResize(x *Term, w uint8, signed bool) *Term {
	if x.w == 0 || w == 0 {
		panic("mkResize on bool")
	}
	if x.w == w {
		return x
	}
	if x.op == OpConst {
		if w > x.w && signed {
			return mkConst(w, uint64(sext64(x.c, x.w)))
		}
		return mkConst(w, x.c)
	}
	if w > x.w {
		if signed {
			return newNode(OpSext, w, x, nil, nil)
		}
		if x.op == OpZext {
			return newNode(OpZext, w, x.x, nil, nil)
		}
		return newNode(OpZext, w, x, nil, nil)
	}
	// truncation
	if (x.op == OpZext || x.op == OpSext) && x.x.w == w {
		return x.x
	}
	if (x.op == OpZext || x.op == OpSext) && x.x.w > w {
		return mkResize(x.x, w, false)
	}
	if x.op == OpZext && x.x.w < w {
		return newNode(OpZext, w, x.x, nil, nil)
	}
	return newNode(OpTrunc, w, x, nil, nil)
}

func mkTbl(tbl []uint64, w uint8, idx *Term) *Term {
	if idx.op == OpConst {
		if idx.c < uint64(len(tbl)) {
			return mkConst(w, tbl[idx.c])
		}
		panic("mkTbl index out of range")
	}
	t := newNode(OpTbl, w, idx, nil, nil)
	t.tbl = tbl
	return t
}

func boolToBV(c *Term, w uint8) *Term {
	return mkIte(c, mkConst(w, 1), mkConst(w, 0))
}

// ---- evaluation under an assignment

type evalEnv struct {
	gen uint32
	get func(id int, w uint8) uint64
}

var evalGen uint32

func newEvalGen() uint32 { return atomic.AddUint32(&evalGen, 1) }

func (t *Term) eval(env *evalEnv) uint64 {
	switch t.op {
	case OpConst:
		return t.c
	case OpSym:
		return env.get(int(t.c), t.w) & mask(t.w)
	}
	if t.evg == env.gen {
		return t.ev
	}
	var r uint64
	switch t.op {
	case OpNot:
		r = ^t.x.eval(env) & mask(t.w)
	case OpNeg:
		r = (-t.x.eval(env)) & mask(t.w)
	case OpBNot:
		r = (t.x.eval(env) ^ 1) & 1
	case OpIte:
		if t.x.eval(env) != 0 {
			r = t.y.eval(env)
		} else {
			r = t.z.eval(env)
		}
	case OpZext:
		r = t.x.eval(env)
	case OpSext:
		r = uint64(sext64(t.x.eval(env), t.x.w)) & mask(t.w)
	case OpTrunc:
		r = t.x.eval(env) & mask(t.w)
	case OpTbl:
		i := t.x.eval(env)
		if i < uint64(len(t.tbl)) {
			r = t.tbl[i]
		}
	case OpBAnd:
		if t.x.eval(env) == 0 {
			r = 0
		} else {
			r = t.y.eval(env)
		}
	case OpBOr:
		if t.x.eval(env) != 0 {
			r = 1
		} else {
			r = t.y.eval(env)
		}
	default:
		r = evalBin(t.op, t.x.w, t.x.eval(env), t.y.eval(env))
	}
	t.evg = env.gen
	t.ev = r
	return r
}

// ---- SMT-LIB printing

func sortOf(w uint8) string {
	if w == 0 {
		return "Bool"
	}
	return fmt.Sprintf("(_ BitVec %d)", w)
}

func symName(id int) string { return fmt.Sprintf("s%d", id) }

func constLit(w uint8, c uint64) string {
	if w == 0 {
		if c != 0 {
			return "true"
		}
		return "false"
	}
	if w%4 == 0 {
		return fmt.Sprintf("#x%0*x", int(w/4), c)
	}
	return fmt.Sprintf("#b%0*b", int(w), c)
}

func (t *Term) ref() string {
	switch t.op {
	case OpConst:
		return constLit(t.w, t.c)
	case OpSym:
		return symName(int(t.c))
	}
	return fmt.Sprintf("t%d", t.id)
}

// emitDef writes the define-fun of this single node (children must be defined).
func (t *Term) emitDef(sb *strings.Builder) {
	fmt.Fprintf(sb, "(define-fun t%d () %s ", t.id, sortOf(t.w))
	switch t.op {
	case OpZext:
		fmt.Fprintf(sb, "((_ zero_extend %d) %s)", t.w-t.x.w, t.x.ref())
	case OpSext:
		fmt.Fprintf(sb, "((_ sign_extend %d) %s)", t.w-t.x.w, t.x.ref())
	case OpTrunc:
		fmt.Fprintf(sb, "((_ extract %d 0) %s)", t.w-1, t.x.ref())
	case OpTbl:
		// piecewise definition over index ranges: each piece is a constant or index+delta
		n := len(t.tbl)
		idx := t.x.ref()
		iw := t.x.w
		m := mask(t.w)
		type run struct {
			hi    int
			konst bool
			v     uint64
		}
		var runs []run
		for b := 0; b < n; {
			e := b
			for e+1 < n && t.tbl[e+1] == t.tbl[b] {
				e++
			}
			if e > b {
				runs = append(runs, run{e, true, t.tbl[b]})
				b = e + 1
				continue
			}
			d := (t.tbl[b] - uint64(b)) & m
			for e+1 < n && (t.tbl[e+1]-uint64(e+1))&m == d {
				e++
			}
			if e > b {
				runs = append(runs, run{e, false, d})
			} else {
				runs = append(runs, run{e, true, t.tbl[b]})
			}
			b = e + 1
		}
		ext := idx
		if t.w > iw {
			ext = fmt.Sprintf("((_ zero_extend %d) %s)", t.w-iw, idx)
		} else if t.w < iw {
			ext = fmt.Sprintf("((_ extract %d 0) %s)", t.w-1, idx)
		}
		for _, r := range runs {
			var piece string
			switch {
			case r.konst:
				piece = constLit(t.w, r.v)
			case r.v == 0:
				piece = ext
			default:
				piece = fmt.Sprintf("(bvadd %s %s)", ext, constLit(t.w, r.v))
			}
			fmt.Fprintf(sb, "(ite (bvule %s %s) %s ", idx, constLit(iw, uint64(r.hi)), piece)
		}
		sb.WriteString(constLit(t.w, 0))
		sb.WriteString(strings.Repeat(")", len(runs)))
	case OpIte:
		fmt.Fprintf(sb, "(ite %s %s %s)", t.x.ref(), t.y.ref(), t.z.ref())
	case OpNot, OpNeg, OpBNot:
		fmt.Fprintf(sb, "(%s %s)", opNames[t.op], t.x.ref())
	default:
		fmt.Fprintf(sb, "(%s %s %s)", opNames[t.op], t.x.ref(), t.y.ref())
	}
	sb.WriteString(")\n")
}

func (t *Term) String() string {
	switch t.op {
	case OpConst:
		if t.w == 0 {
			return constLit(0, t.c)
		}
		return fmt.Sprintf("%d:%d", sext64(t.c, t.w), t.w)
	case OpSym:
		return fmt.Sprintf("s%d:%d", t.c, t.w)
	}
	if t.size > 40 {
		return fmt.Sprintf("<%s#%d size %d>", opNames[t.op], t.id, t.size)
	}
	s := "(" + opNames[t.op]
	for _, a := range []*Term{t.x, t.y, t.z} {
		if a != nil {
			s += " " + a.String()
		}
	}
	return s + ")"
}

// collectSyms adds the symbol ids occurring in t to set.
func (t *Term) collectSyms(set map[int]uint8, seen map[*Term]bool) {
	if t.sv == svNone {
		return
	}
	if t.op == OpSym {
		set[int(t.c)] = t.w
		return
	}
	if t.sv >= 0 {
		// single symbol: find its width lazily
		if _, ok := set[int(t.sv)]; ok {
			return
		}
	}
	if seen[t] {
		return
	}
	seen[t] = true
	if t.x != nil {
		t.x.collectSyms(set, seen)
	}
	if t.y != nil {
		t.y.collectSyms(set, seen)
	}
	if t.z != nil {
		t.z.collectSyms(set, seen)
	}
}

// ---- 256-bit sets for byte domains

type bset [4]uint64

func fullSet() bset { return bset{^uint64(0), ^uint64(0), ^uint64(0), ^uint64(0)} }
func (s *bset) has(i int) bool {
	return s[i>>6]&(1<<(uint(i)&63)) != 0
}
func (s *bset) set(i int) { s[i>>6] |= 1 << (uint(i) & 63) }
func (s bset) and(o bset) bset {
	return bset{s[0] & o[0], s[1] & o[1], s[2] & o[2], s[3] & o[3]}
}
func (s bset) andNot(o bset) bset {
	return bset{s[0] &^ o[0], s[1] &^ o[1], s[2] &^ o[2], s[3] &^ o[3]}
}
func (s bset) empty() bool { return s[0]|s[1]|s[2]|s[3] == 0 }
func (s bset) count() int {
	return bits.OnesCount64(s[0]) + bits.OnesCount64(s[1]) + bits.OnesCount64(s[2]) + bits.OnesCount64(s[3])
}
func (s bset) first() int {
	for i := 0; i < 4; i++ {
		if s[i] != 0 {
			return i*64 + bits.TrailingZeros64(s[i])
		}
	}
	return -1
}
