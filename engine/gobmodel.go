package main

// Model of encoding/gob as an opaque injective codec (DESIGN section 5): Encode appends a short
// marker naming a remembered deep copy of the value together with its wire kind; Decode restores
// the copy iff the target has the same wire kind, and fails on anything that is not a marker.

import (
	"fmt"
	"go/types"
)

type gobBlob struct {
	kind string
	val  Value
	ti   *TInfo
}

const gobMagic0, gobMagic1, gobMagic2, gobMagic3 = 0xF7, 'g', 'o', 'b'
const gobMarkerLen = 6

func (it *Interp) gobKind(ti *TInfo) string {
	// a type with its own GobEncode is its own kind; otherwise the structure decides
	if m := it.findMethod(ti, "GobEncode"); m {
		return "gobencoder:" + ti.name
	}
	return "wire:" + types.TypeString(ti.t.Underlying(), nil)
}

// findMethod reports whether ti or *ti has a method with the given name.
func (it *Interp) findMethod(ti *TInfo, name string) bool {
	ms := it.p.prog.MethodSets.MethodSet(ti.t)
	for i := 0; i < ms.Len(); i++ {
		if ms.At(i).Obj().Name() == name {
			return true
		}
	}
	if _, isPtr := ti.t.(*types.Pointer); !isPtr {
		ms = it.p.prog.MethodSets.MethodSet(types.NewPointer(ti.t))
		for i := 0; i < ms.Len(); i++ {
			if ms.At(i).Obj().Name() == name {
				return true
			}
		}
	}
	return false
}

func deepCopy(v Value) Value {
	switch x := v.(type) {
	case Slice:
		if x.obj == nil {
			return x
		}
		a := make([]Value, len(x.a))
		for i, e := range x.a {
			a[i] = deepCopy(e)
		}
		return Slice{a: a, obj: &Obj{id: 1 << 59, what: "gob copy"}}
	case StructV:
		f := make([]Value, len(x.f))
		for i, e := range x.f {
			f[i] = deepCopy(e)
		}
		return StructV{x.t, f}
	case ArrayV:
		a := make([]Value, len(x.a))
		for i, e := range x.a {
			a[i] = deepCopy(e)
		}
		return ArrayV{a}
	case *MapObj:
		if x == nil {
			return x
		}
		m := &MapObj{obj: &Obj{id: 1 << 59, what: "gob copy"}, idx: map[string]int{}, kt: x.kt, vt: x.vt}
		for _, e := range x.entries {
			if e.deleted {
				continue
			}
			m.entries = append(m.entries, mapEntry{k: deepCopy(e.k), v: deepCopy(e.v), conc: e.conc})
			if ck, ok := concreteKey(e.k); ok {
				m.idx[ck] = len(m.entries) - 1
			} else {
				m.hasSym = true
			}
			m.n++
		}
		return m
	}
	return v
}

func init() {
	intrinsics["encoding/gob.NewEncoder"] = func(it *Interp, fr *frame, args []Value) Value {
		p := it.newOf(fr, "encoding/gob", "Encoder").(Ptr)
		it.gobW[p.cell] = args[0].(Iface)
		return p
	}
	intrinsics["encoding/gob.NewDecoder"] = func(it *Interp, fr *frame, args []Value) Value {
		p := it.newOf(fr, "encoding/gob", "Decoder").(Ptr)
		it.gobR[p.cell] = args[0].(Iface)
		return p
	}
	intrinsics["(*encoding/gob.Encoder).Encode"] = func(it *Interp, fr *frame, args []Value) Value {
		if it.spec > 0 {
			panic(specFail{"gob encode"})
		}
		enc := args[0].(Ptr)
		w, ok := it.gobW[enc.cell]
		if !ok {
			it.abort("unmodelled", "gob.Encoder not created by gob.NewEncoder")
		}
		e := args[1].(Iface)
		if e.t == nil {
			return it.opaqueError()
		}
		ti := e.t
		val := e.v
		// pointers are flattened by gob
		for ti.kind == KPtr {
			p := val.(Ptr)
			if p.cell == nil {
				return it.opaqueError()
			}
			val = *p.cell
			ti = ti.elem
		}
		kind := it.gobKind(ti)
		var stored Value
		if kind[0] == 'g' {
			// GobEncoder: the payload is what the type's own GobEncode returns
			fn := it.lookupMethod(ti, "GobEncode")
			if fn == nil {
				it.abort("unmodelled", "GobEncode method of "+ti.name)
			}
			recv := val
			if _, isPtrRecv := fn.Signature.Recv().Type().(*types.Pointer); isPtrRecv {
				cell := new(Value)
				*cell = copyVal(val)
				recv = Ptr{cell: cell, obj: it.newObj(ti.size, "gob recv")}
			}
			res := it.call(fr, FuncV{fn: fn}, []Value{recv}).(Tuple)
			if errv := res[1].(Iface); errv.t != nil {
				return errv
			}
			stored = deepCopy(res[0])
		} else {
			switch ti.kind {
			case KIface, KFunc, KChan, KUnsafePointer:
				return it.opaqueError()
			}
			stored = deepCopy(copyVal(val))
		}
		it.gobBlobs = append(it.gobBlobs, gobBlob{kind: kind, val: stored, ti: ti})
		id := len(it.gobBlobs) - 1
		marker := []Value{constBytes[gobMagic0], constBytes[gobMagic1], constBytes[gobMagic2], constBytes[gobMagic3], constBytes[id>>8&0xff], constBytes[id&0xff]}
		buf := Slice{a: marker, obj: it.newObj(gobMarkerLen, "gob marker")}
		// w.Write(buf)
		wfn := it.lookupMethod(w.t, "Write")
		if wfn == nil {
			it.abort("unmodelled", "gob writer without Write: "+w.t.name)
		}
		res := it.call(fr, FuncV{fn: wfn}, []Value{w.v, buf}).(Tuple)
		if errv := res[1].(Iface); errv.t != nil {
			return errv
		}
		return Iface{}
	}
	intrinsics["(*encoding/gob.Decoder).Decode"] = func(it *Interp, fr *frame, args []Value) Value {
		if it.spec > 0 {
			panic(specFail{"gob decode"})
		}
		dec := args[0].(Ptr)
		r, ok := it.gobR[dec.cell]
		if !ok {
			it.abort("unmodelled", "gob.Decoder not created by gob.NewDecoder")
		}
		// only *bytes.Reader sources are used by the package
		rp, isPtr := r.v.(Ptr)
		if !isPtr || rp.cell == nil || r.t.name != "*bytes.Reader" {
			it.abort("unmodelled", "gob reader of type "+r.t.name)
		}
		rs := (*rp.cell).(StructV)
		data := rs.f[0].(Slice)
		pos := int(it.concreteInt(fr, rs.f[1].(*Term), "bytes.Reader position"))
		rest := data.a[pos:]
		if it.gobHostile {
			return it.gobHostileDecode(fr, args[1].(Iface), len(rest))
		}
		if len(rest) < gobMarkerLen {
			return it.opaqueError()
		}
		magic := []uint64{gobMagic0, gobMagic1, gobMagic2, gobMagic3}
		for i, m := range magic {
			eq := mkBin(OpEq, rest[i].(*Term), constBytes[m])
			if !it.branch(fr, eq) {
				return it.opaqueError()
			}
		}
		id := int(it.concreteInt(fr, rest[4].(*Term), "gob marker"))<<8 | int(it.concreteInt(fr, rest[5].(*Term), "gob marker"))
		if id >= len(it.gobBlobs) {
			return it.opaqueError()
		}
		blob := it.gobBlobs[id]
		// consume the marker
		np := Ptr{cell: &rs.f[1], obj: rp.obj}
		it.storeCell(fr, np, np.cell, mkConst(64, uint64(pos+gobMarkerLen)))
		e := args[1].(Iface)
		if e.t == nil || e.t.kind != KPtr {
			return it.opaqueError()
		}
		target := e.v.(Ptr)
		if target.cell == nil {
			return it.opaqueError()
		}
		tti := e.t.elem
		for tti.kind == KPtr {
			// allocate through nil pointers like gob does
			inner := (*target.cell).(Ptr)
			if inner.cell == nil {
				c := new(Value)
				*c = it.zero(tti.elem)
				inner = Ptr{cell: c, obj: it.newObj(tti.elem.size, "gob alloc")}
				it.storeCell(fr, target, target.cell, inner)
			}
			target = inner
			tti = tti.elem
		}
		kind := it.gobKind(tti)
		if kind != blob.kind {
			return it.opaqueError()
		}
		if kind[0] == 'g' {
			fn := it.lookupMethod(it.p.tt.Of(types.NewPointer(tti.t)), "GobDecode")
			if fn == nil {
				it.abort("unmodelled", "GobDecode method of "+tti.name)
			}
			res := it.call(fr, FuncV{fn: fn}, []Value{target, deepCopy(blob.val)})
			if errv, ok := res.(Iface); ok && errv.t != nil {
				return errv
			}
			return Iface{}
		}
		it.storeCell(fr, target, target.cell, deepCopy(blob.val))
		return Iface{}
	}
}

// lookupMethod finds a method by name in the method set of ti (or of *ti for value types).
func (it *Interp) lookupMethod(ti *TInfo, name string) *ssaFunction {
	for _, t := range []types.Type{ti.t, types.NewPointer(ti.t)} {
		ms := it.p.prog.MethodSets.MethodSet(t)
		for i := 0; i < ms.Len(); i++ {
			if ms.At(i).Obj().Name() == name {
				return it.p.prog.MethodValue(ms.At(i))
			}
		}
		if _, isPtr := ti.t.(*types.Pointer); isPtr {
			break
		}
	}
	return nil
}

// gobHostileDecode: for totality checks the decoder answers nondeterministically with an error
// or with an arbitrary small well-typed value.
func (it *Interp) gobHostileDecode(fr *frame, e Iface, restLen int) Value {
	if restLen == 0 || it.choice(fr, 2, true) == 0 {
		return it.opaqueError()
	}
	if e.t == nil || e.t.kind != KPtr {
		return it.opaqueError()
	}
	target := e.v.(Ptr)
	if target.cell == nil {
		return it.opaqueError()
	}
	v, ok := it.arbitraryValue(fr, e.t.elem, 2)
	if !ok {
		it.abort("unmodelled", fmt.Sprintf("hostile gob value of type %s", e.t.elem.name))
	}
	it.storeCell(fr, target, target.cell, v)
	return Iface{}
}

// arbitraryValue builds a small arbitrary value of type ti from fresh symbols.
func (it *Interp) arbitraryValue(fr *frame, ti *TInfo, depth int) (Value, bool) {
	switch ti.kind {
	case KBool:
		return mkBool(it.choice(fr, 2, true) == 1), true
	case KInt:
		if ti.w == 8 {
			return it.newByte(), true
		}
		return mkResize(it.newByte(), ti.w, false), true
	case KFloat:
		return float64(it.choice(fr, 3, true)) - 1, true
	case KString:
		n := it.choice(fr, 3, true)
		b := make([]Value, n)
		for i := range b {
			b[i] = it.newByte()
		}
		if n == 0 {
			return Str{}, true
		}
		return Str{b: b, obj: it.newObj(int64(n), "hostile")}, true
	case KSlice:
		n := it.choice(fr, 3, true)
		if depth <= 0 {
			n = 0
		}
		a := make([]Value, n)
		for i := range a {
			v, ok := it.arbitraryValue(fr, ti.elem, depth-1)
			if !ok {
				return nil, false
			}
			a[i] = v
		}
		return Slice{a: a, obj: it.newObj(int64(n)*ti.elem.size, "hostile")}, true
	case KMap:
		m := &MapObj{obj: it.newObj(8, "hostile map"), idx: map[string]int{}, kt: ti.key, vt: ti.elem}
		n := it.choice(fr, 3, true)
		keys := []string{"id", "type", "name"}
		for i := 0; i < n; i++ {
			v, ok := it.arbitraryValue(fr, ti.elem, depth-1)
			if !ok {
				return nil, false
			}
			if ti.key.kind != KString {
				return nil, false
			}
			k := mkStr(keys[i])
			m.entries = append(m.entries, mapEntry{k: k, v: v, conc: true})
			ck, _ := concreteKey(k)
			m.idx[ck] = len(m.entries) - 1
			m.n++
		}
		return m, true
	case KStruct:
		f := make([]Value, len(ti.fields))
		for i, ft := range ti.fields {
			v, ok := it.arbitraryValue(fr, ft, depth-1)
			if !ok {
				return nil, false
			}
			f[i] = v
		}
		return StructV{ti.under, f}, true
	}
	return nil, false
}
