package main

// Speculative merging of side-effect-free conditionals: both arms of an If on a symbolic
// condition are executed, and if neither writes to memory that existed before the If,
// forks, panics or calls an effectful primitive, the values they feed into the join
// block's phis (or the function results, when both arms return) are merged with ite.

import (
	"fmt"
	"os"
	"sync/atomic"

	"golang.org/x/tools/go/ssa"
)

type specFail struct{ why string }

const specBudget = 6000

const exitBlock = -1 // virtual exit node

type mergeSite struct {
	static int32 // 0 unknown, 1 candidate, 2 never (arms contain effectful instructions)
}

type siteStat struct{ tries, fails int }

// postdoms computes the immediate post-dominator of every block (exitBlock = virtual exit,
// -2 = none, e.g. infinite loop / panic-only).
func (cf *cfunc) postdoms() []int {
	cf.pdOnce.Do(func() {
		n := len(cf.blocks)
		// ipdom via iterative dataflow on sets (functions are small)
		const exit = 0 // index n means exit in the set encoding below
		_ = exit
		// sets as bitsets over n+1 nodes
		words := (n + 1 + 63) / 64
		full := make([]uint64, words)
		for i := 0; i <= n; i++ {
			full[i/64] |= 1 << (uint(i) % 64)
		}
		pd := make([][]uint64, n+1)
		for i := 0; i <= n; i++ {
			pd[i] = make([]uint64, words)
			copy(pd[i], full)
		}
		// exit postdominated only by itself
		for w := range pd[n] {
			pd[n][w] = 0
		}
		pd[n][n/64] |= 1 << (uint(n) % 64)
		succs := func(b int) []int {
			cb := cf.blocks[b]
			if len(cb.succs) == 0 {
				// return or panic: treat both as reaching exit
				return []int{n}
			}
			return cb.succs
		}
		changed := true
		tmp := make([]uint64, words)
		for changed {
			changed = false
			for b := n - 1; b >= 0; b-- {
				copy(tmp, full)
				for _, s := range succs(b) {
					for w := range tmp {
						tmp[w] &= pd[s][w]
					}
				}
				tmp[b/64] |= 1 << (uint(b) % 64)
				for w := range tmp {
					if tmp[w] != pd[b][w] {
						changed = true
						copy(pd[b], tmp)
						break
					}
				}
			}
		}
		count := func(s []uint64) int {
			c := 0
			for _, w := range s {
				for ; w != 0; w &= w - 1 {
					c++
				}
			}
			return c
		}
		res := make([]int, n)
		for b := 0; b < n; b++ {
			// immediate postdominator: the strict postdominator with the largest pd set
			best, bestCount := -2, -1
			for d := 0; d <= n; d++ {
				if d == b || pd[b][d/64]&(1<<(uint(d)%64)) == 0 {
					continue
				}
				c := count(pd[d])
				if c > bestCount {
					best, bestCount = d, c
				}
			}
			if best == n {
				best = exitBlock
			}
			res[b] = best
		}
		cf.ipdom = res
	})
	return cf.ipdom
}

// foldCond tries to decide c from the byte domains alone.
func (it *Interp) foldCond(c *Term) (val, decided bool) {
	if c.op == OpConst {
		return c.c != 0, true
	}
	ps := it.ps
	if ps == nil || c.sv < 0 {
		return false, false
	}
	dom, ok := ps.domains[int(c.sv)]
	if !ok {
		return false, false
	}
	tm := ps.evalMask(c, dom)
	if dom.andNot(tm).empty() {
		return true, true
	}
	if tm.empty() {
		return false, true
	}
	return false, false
}

func (it *Interp) doIf(fr *frame, cb *cblock, ci *cinstr, c *Term) (int, bool) {
	if v, ok := it.foldCond(c); ok {
		if v {
			return cb.succs[0], false
		}
		return cb.succs[1], false
	}
	if !it.noMerge && it.ps != nil && !it.inInit {
		site := ci.aux.(*mergeSite)
		st := atomic.LoadInt32(&site.static)
		if st == 0 {
			st = fr.cf.classifySite(cb)
			atomic.StoreInt32(&site.static, st)
		}
		if st == 1 {
			// per-path (hence replay-deterministic) back-off for sites that keep failing
			ss := it.ps.sites[site]
			if ss == nil {
				ss = &siteStat{}
				it.ps.sites[site] = ss
			}
			if !(ss.tries >= 3 && ss.fails == ss.tries) {
				ss.tries++
				if next, ok := it.tryMerge(fr, cb, c); ok {
					if debugMerge {
						fmt.Fprintf(os.Stderr, "merged at %s block %d -> %d\n", it.stackString(fr), cb.index, next)
					}
					if next == exitBlock {
						return -1, false
					}
					return next, true
				}
				ss.fails++
			}
		}
	}
	if it.spec > 0 {
		panic(specFail{"fork"})
	}
	if it.branch(fr, c) {
		return cb.succs[0], false
	}
	return cb.succs[1], false
}

// tryMerge executes both arms speculatively; on success the join block's phis (or fr.result)
// hold the merged values and the join block index is returned.
func (it *Interp) tryMerge(fr *frame, cb *cblock, c *Term) (next int, ok bool) {
	pds := fr.cf.postdoms()
	j := pds[cb.index]
	if j == -2 {
		return 0, false
	}
	outer := it.spec == 0
	depth := it.depth
	base := it.specBase
	if outer {
		it.specSteps = 0
	}
	savedDefers := len(fr.defers)
	// registers live at the If (loop-carried ones in particular) must read the same in both arms
	envSave := make([]Value, len(fr.env))
	copy(envSave, fr.env)
	savePrev := fr.prev
	it.spec++
	defer func() {
		it.spec--
		it.specBase = base
		if r := recover(); r != nil {
			if _, isFail := r.(specFail); isFail && outer {
				it.depth = depth
				fr.defers = fr.defers[:savedDefers]
				copy(fr.env, envSave)
				fr.prev = savePrev
				next, ok = 0, false
				return
			}
			panic(r)
		}
	}()
	it.specBase = it.objSeq
	vT := it.specRun(fr, cb.succs[0], cb.index, j)
	copy(fr.env, envSave)
	it.specBase = it.objSeq
	vF := it.specRun(fr, cb.succs[1], cb.index, j)
	copy(fr.env, envSave)
	merged := make([]Value, len(vT))
	for i := range vT {
		m, good := mergeVals(c, vT[i], vF[i])
		if !good {
			panic(specFail{"unmergeable values"})
		}
		merged[i] = m
	}
	if debugMerge {
		fmt.Fprintf(os.Stderr, "  arms: T=%v F=%v cond=%s\n", vT, vF, c)
	}
	if j == exitBlock {
		switch len(merged) {
		case 0:
			fr.result = nil
		case 1:
			fr.result = merged[0]
		default:
			fr.result = Tuple(merged)
		}
		return exitBlock, true
	}
	jb := fr.cf.blocks[j]
	for i := 0; i < jb.phis; i++ {
		fr.env[jb.instrs[i].dst] = merged[i]
	}
	return j, true
}

// specRun runs from block start (entered from block from) until block j is reached and
// returns the values j's phis take (or the function results when j is the virtual exit).
func (it *Interp) specRun(fr *frame, start, from, j int) []Value {
	b, prev, skip := start, from, false
	for {
		if b == j {
			jb := fr.cf.blocks[j]
			if !skip && jb.phis > 0 {
				fr.prev = prev
				it.assignPhis(fr, jb)
			}
			out := make([]Value, jb.phis)
			for i := 0; i < jb.phis; i++ {
				out[i] = fr.env[jb.instrs[i].dst]
			}
			return out
		}
		fr.prev = prev
		next, sk := it.execBlock(fr, fr.cf.blocks[b], skip)
		if next < 0 {
			if j != exitBlock {
				panic(specFail{"return inside arm"})
			}
			switch r := fr.result.(type) {
			case nil:
				return nil
			case Tuple:
				return []Value(r)
			default:
				return []Value{r}
			}
		}
		prev, b, skip = b, next, sk
	}
}

func (it *Interp) assignPhis(fr *frame, cb *cblock) {
	ssab := fr.cf.fn.Blocks[cb.index]
	edge := -1
	for i, p := range ssab.Preds {
		if p.Index == fr.prev {
			edge = i
			break
		}
	}
	if edge < 0 {
		panic("phi: no incoming edge")
	}
	var tmp [8]Value
	vals := tmp[:0]
	for i := 0; i < cb.phis; i++ {
		ci := &cb.instrs[i]
		vals = append(vals, it.get(fr, &ci.ops[edge]))
	}
	for i := 0; i < cb.phis; i++ {
		fr.env[cb.instrs[i].dst] = vals[i]
	}
}

func sameSlice(a, b []Value) bool {
	if len(a) != len(b) || cap(a) != cap(b) {
		return false
	}
	if cap(a) == 0 {
		return true
	}
	return &a[:1][0] == &b[:1][0]
}

// mergeVals builds ite(c, a, b) for values; ok=false when the shapes differ.
func mergeVals(c *Term, a, b Value) (Value, bool) {
	switch x := a.(type) {
	case nil:
		return nil, b == nil
	case *Term:
		y, ok := b.(*Term)
		if !ok || x.w != y.w {
			return nil, false
		}
		if x.w >= 16 && x.op == OpConst && y.op == OpConst && x.c != y.c {
			// control-dependent concrete integers (indices, bounds, counters) stay concrete: fork instead
			return nil, false
		}
		return mkIte(c, x, y), true
	case float64:
		y, ok := b.(float64)
		return x, ok && (x == y || (x != x && y != y))
	case float32:
		y, ok := b.(float32)
		return x, ok && x == y
	case Str:
		y, ok := b.(Str)
		if !ok || len(x.b) != len(y.b) {
			return nil, false
		}
		if len(x.b) == 0 || &x.b[0] == &y.b[0] {
			return x, true
		}
		if len(x.b) > 64 {
			return nil, false
		}
		nb := make([]Value, len(x.b))
		for i := range nb {
			nb[i] = mkIte(c, x.b[i].(*Term), y.b[i].(*Term))
		}
		return Str{b: nb, obj: &Obj{id: 1 << 60, what: "merged string"}}, true
	case Ptr:
		y, ok := b.(Ptr)
		if !ok || x.cell != y.cell || x.sarr != nil || y.sarr != nil {
			return nil, false
		}
		return x, true
	case Slice:
		y, ok := b.(Slice)
		if !ok || x.obj != y.obj || !sameSlice(x.a, y.a) {
			return nil, false
		}
		return x, true
	case StructV:
		y, ok := b.(StructV)
		if !ok || x.t != y.t {
			return nil, false
		}
		f := make([]Value, len(x.f))
		for i := range f {
			m, good := mergeVals(c, x.f[i], y.f[i])
			if !good {
				return nil, false
			}
			f[i] = m
		}
		return StructV{x.t, f}, true
	case ArrayV:
		y, ok := b.(ArrayV)
		if !ok || len(x.a) != len(y.a) {
			return nil, false
		}
		f := make([]Value, len(x.a))
		for i := range f {
			m, good := mergeVals(c, x.a[i], y.a[i])
			if !good {
				return nil, false
			}
			f[i] = m
		}
		return ArrayV{f}, true
	case Iface:
		y, ok := b.(Iface)
		if !ok || x.t != y.t || x.itab != y.itab {
			return nil, false
		}
		if x.t == nil {
			return x, true
		}
		m, good := mergeVals(c, x.v, y.v)
		if !good {
			return nil, false
		}
		return Iface{t: x.t, v: m, itab: x.itab}, true
	case *MapObj:
		y, ok := b.(*MapObj)
		return x, ok && x == y
	case FuncV:
		y, ok := b.(FuncV)
		if !ok || x.fn != y.fn || x.bi != y.bi || len(x.env) != len(y.env) {
			return nil, false
		}
		for i := range x.env {
			if _, good := mergeVals(c, x.env[i], y.env[i]); !good {
				return nil, false
			}
			if p, isP := x.env[i].(Ptr); !isP || p.cell != y.env[i].(Ptr).cell {
				if t, isT := x.env[i].(*Term); !isT || t != y.env[i].(*Term) {
					return nil, false
				}
			}
		}
		return x, true
	case Tuple:
		y, ok := b.(Tuple)
		if !ok || len(x) != len(y) {
			return nil, false
		}
		f := make(Tuple, len(x))
		for i := range f {
			m, good := mergeVals(c, x[i], y[i])
			if !good {
				return nil, false
			}
			f[i] = m
		}
		return f, true
	}
	return nil, false
}

// classifySite decides statically whether the region between an If and its post-dominator
// is free of instructions that can never be executed speculatively.
func (cf *cfunc) classifySite(cb *cblock) int32 {
	pds := cf.postdoms()
	j := pds[cb.index]
	if j == -2 {
		return 2
	}
	seen := map[int]bool{}
	work := append([]int{}, cb.succs...)
	nblocks := 0
	for len(work) > 0 {
		b := work[len(work)-1]
		work = work[:len(work)-1]
		if b == j || seen[b] {
			continue
		}
		seen[b] = true
		nblocks++
		if nblocks > 24 {
			return 2
		}
		if j != exitBlock && cf.fn.Blocks[b].Dominates(cf.fn.Blocks[cb.index]) {
			// the arm re-enters a loop around the If: registers live after the join would need merging
			return 2
		}
		blk := cf.blocks[b]
		for i := range blk.instrs {
			switch blk.instrs[i].ins.(type) {
			case *ssa.Panic, *ssa.Defer, *ssa.RunDefers, *ssa.Go, *ssa.Send, *ssa.Select, *ssa.MapUpdate:
				return 2
			}
		}
		work = append(work, blk.succs...)
	}
	return 1
}

var debugMerge = os.Getenv("GOSX_DEBUG_MERGE") != ""
