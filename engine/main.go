package main

import (
	"encoding/json"
	"flag"
	"fmt"
	"os"
	"runtime"
	"sort"
	"strings"
	"time"
)

func main() {
	if len(os.Args) < 2 {
		fmt.Fprintln(os.Stderr, "usage: gosx explore|check ...")
		os.Exit(2)
	}
	switch os.Args[1] {
	case "explore":
		cmdExplore(os.Args[2:])
	case "check":
		cmdCheck(os.Args[2:])
	case "selftest":
		cmdSelftest()
	case "replay":
		cmdReplay(os.Args[2:])
	default:
		fmt.Fprintln(os.Stderr, "unknown command", os.Args[1])
		os.Exit(2)
	}
}

type ExploreOut struct {
	Harnesses []*HarnessStat
	Queries   int
	SolverS   float64
	Unknowns  int
	SolverErrs []string
	Funcs     []string
	WallS     float64
	LoadS     float64
	TimedOut  bool
}

func cmdExplore(args []string) {
	fs := flag.NewFlagSet("explore", flag.ExitOnError)
	repo := fs.String("repo", "/repo", "repository")
	hdirs := fs.String("harness", "/verif/harness", "comma separated harness dirs")
	prefix := fs.String("prefix", "vpH_", "harness name prefix")
	workers := fs.Int("workers", runtime.NumCPU(), "workers")
	maxPaths := fs.Int("maxpaths", 20000, "paths per harness")
	maxSteps := fs.Int64("maxsteps", 20000000, "instructions per path")
	maxDec := fs.Int("maxdec", 4000, "decisions per path")
	timeout := fs.Int("solver-timeout", 5000, "ms per query")
	solver := fs.String("solver", "z3", "solver")
	verbose := fs.Bool("v", false, "verbose")
	out := fs.String("json", "", "write results json")
	fs.Parse(args)
	t0 := time.Now()
	genDir, _ := os.MkdirTemp("", "vp-gen-")
	defer os.RemoveAll(genDir)
	if err := generateHarnesses(*repo, "", genDir); err != nil {
		fmt.Fprintln(os.Stderr, err)
		os.Exit(2)
	}
	ov, _, err := overlayFrom(*repo, "", append(strings.Split(*hdirs, ","), genDir)...)
	if err != nil {
		fmt.Fprintln(os.Stderr, err)
		os.Exit(2)
	}
	p, mainPkg, err := LoadProgram(*repo, ov)
	if err != nil {
		fmt.Fprintln(os.Stderr, err)
		os.Exit(2)
	}
	loadS := time.Since(t0).Seconds()
	hs := findHarnesses(mainPkg, *prefix)
	if len(hs) == 0 {
		fmt.Fprintln(os.Stderr, "no harness with prefix", *prefix)
		os.Exit(2)
	}
	cfg := Config{MaxPaths: *maxPaths, MaxSteps: *maxSteps, MaxDecisions: *maxDec, SolverTimeoutMs: *timeout, Workers: *workers, Solver: *solver, Verbose: *verbose}
	ex := NewExplorer(p, cfg, hs)
	t1 := time.Now()
	ex.Run()
	res := ExploreOut{Harnesses: ex.stats, Queries: ex.Queries, SolverS: ex.SolverT.Seconds(), Unknowns: ex.Unknowns, SolverErrs: ex.SolverErrs, WallS: time.Since(t1).Seconds(), LoadS: loadS, TimedOut: ex.timedOut}
	for f := range ex.funcs {
		res.Funcs = append(res.Funcs, f)
	}
	sort.Strings(res.Funcs)
	printSummary(&res)
	if *out != "" {
		data, _ := json.MarshalIndent(&res, "", " ")
		os.WriteFile(*out, data, 0o644)
	}
}

func printSummary(res *ExploreOut) {
	fmt.Printf("load %.1fs explore %.1fs queries %d solver %.1fs unknown %d errors %d\n", res.LoadS, res.WallS, res.Queries, res.SolverS, res.Unknowns, len(res.SolverErrs))
	for _, e := range res.SolverErrs {
		fmt.Println("  solver error:", e)
		break
	}
	for _, st := range res.Harnesses {
		fmt.Printf("%-50s paths %d done %d infeasible %d steps %d dec %d (dom %d sol %d)", st.Name, st.Paths, st.Done, st.Infeasible, st.Steps, st.Decisions, st.DomDecided, st.SolDecided)
		if st.Limit {
			fmt.Printf(" PATH-LIMIT")
		}
		fmt.Println()
		for k, n := range st.Aborted {
			fmt.Printf("   ABORT %s x%d: %s\n", k, n, st.AbortEx[k])
		}
		var ids []string
		for id := range st.Violations {
			ids = append(ids, id)
		}
		sort.Strings(ids)
		for _, id := range ids {
			v := st.Violations[id]
			fmt.Printf("   VIOLATION %s x%d [%s] %s tape=%s\n", id, st.VioCount[id], v.Kind, v.Detail, tapeString(v.Tape))
		}
		if len(st.Reached) == 0 {
			fmt.Printf("   NO vpReach witness\n")
		}
	}
}

func tapeString(t []Draw) string {
	var sb strings.Builder
	for i, d := range t {
		if i > 0 {
			sb.WriteByte(' ')
		}
		switch d.Kind {
		case "byte":
			if d.Val >= 0x20 && d.Val < 0x7f {
				fmt.Fprintf(&sb, "'%c'", rune(d.Val))
			} else {
				fmt.Fprintf(&sb, "x%02x", d.Val)
			}
		case "choice":
			fmt.Fprintf(&sb, "c%d", d.Val)
		default:
			fmt.Fprintf(&sb, "%s:%d", d.Kind, int64(d.Val))
		}
	}
	return sb.String()
}

