package main

import (
	"fmt"
	"go/types"
	"math"

	"golang.org/x/tools/go/ssa"
)

func (it *Interp) callBuiltin(fr *frame, b *ssa.Builtin, args []Value, c *ssa.CallCommon) Value {
	switch b.Name() {
	case "len":
		switch x := args[0].(type) {
		case Str:
			return mkConst(64, uint64(len(x.b)))
		case Slice:
			return mkConst(64, uint64(len(x.a)))
		case ArrayV:
			return mkConst(64, uint64(len(x.a)))
		case Ptr:
			if x.cell == nil {
				// len of nil *array is the array length (static); need type
				if c != nil {
					if pt, ok := c.Args[0].Type().Underlying().(*types.Pointer); ok {
						return mkConst(64, uint64(pt.Elem().Underlying().(*types.Array).Len()))
					}
				}
				return mkConst(64, 0)
			}
			return mkConst(64, uint64(len((*x.cell).(ArrayV).a)))
		case *MapObj:
			if x == nil {
				return mkConst(64, 0)
			}
			return mkConst(64, uint64(x.n))
		}
	case "cap":
		switch x := args[0].(type) {
		case Slice:
			return mkConst(64, uint64(cap(x.a)))
		case ArrayV:
			return mkConst(64, uint64(len(x.a)))
		case Ptr:
			if x.cell == nil {
				return mkConst(64, 0)
			}
			return mkConst(64, uint64(len((*x.cell).(ArrayV).a)))
		}
	case "append":
		s := args[0].(Slice)
		var et *TInfo
		if c != nil {
			et = it.p.tt.Of(c.Args[0].Type().Underlying().(*types.Slice).Elem())
		} else {
			et = it.p.tt.Of(types.Typ[types.Uint8])
		}
		switch e := args[1].(type) {
		case Slice:
			return it.appendValues(fr, s, e.a, et)
		case Str:
			return it.appendValues(fr, s, e.b, et)
		}
	case "copy":
		dst := args[0].(Slice)
		var src []Value
		switch s := args[1].(type) {
		case Slice:
			src = s.a
		case Str:
			src = s.b
		}
		n := len(dst.a)
		if len(src) < n {
			n = len(src)
		}
		if n > 0 {
			// handle overlap like memmove
			tmp := make([]Value, n)
			for i := 0; i < n; i++ {
				tmp[i] = copyVal(src[i])
			}
			for i := 0; i < n; i++ {
				p := Ptr{cell: &dst.a[i], obj: dst.obj}
				it.storeCell(fr, p, p.cell, tmp[i])
			}
		}
		return mkConst(64, uint64(n))
	case "delete":
		it.mapDelete(fr, args[0].(*MapObj), args[1])
		return nil
	case "clear":
		switch x := args[0].(type) {
		case *MapObj:
			if x != nil {
				it.curFrame = fr
				it.mapJournal(x)
				x.entries = nil
				x.idx = map[string]int{}
				x.n = 0
				x.hasSym = false
			}
		case Slice:
			et := it.p.tt.Of(c.Args[0].Type().Underlying().(*types.Slice).Elem())
			for i := range x.a {
				p := Ptr{cell: &x.a[i], obj: x.obj}
				it.storeCell(fr, p, p.cell, it.zero(et))
			}
		}
		return nil
	case "panic":
		if it.spec > 0 {
			panic(specFail{"panic"})
		}
		panic(&goPanic{val: args[0], msg: it.describePanic(args[0]), pos: it.stackString(fr)})
	case "recover":
		if it.spec > 0 {
			panic(specFail{"recover"})
		}
		// must be called directly by a deferred function of a panicking frame
		if fr != nil && fr.caller != nil && fr.caller.panicking {
			fr.caller.panicking = false
			gp := fr.caller.panicVal
			fr.caller.panicVal = nil
			if gp.val == nil {
				return Iface{}
			}
			return gp.val
		}
		return Iface{}
	case "print", "println":
		return nil
	case "min", "max":
		isMax := b.Name() == "max"
		acc := args[0]
		for _, a := range args[1:] {
			switch x := acc.(type) {
			case *Term:
				y := a.(*Term)
				ti := it.p.tt.Of(c.Args[0].Type())
				var lt *Term
				if ti.signed {
					lt = mkBin(OpSlt, x, y)
				} else {
					lt = mkBin(OpUlt, x, y)
				}
				if isMax {
					acc = mkIte(lt, y, x)
				} else {
					acc = mkIte(lt, x, y)
				}
			case float64:
				y := a.(float64)
				if isMax {
					acc = math.Max(x, y)
				} else {
					acc = math.Min(x, y)
				}
			case Str:
				y := a.(Str)
				lt := strLess(x.b, y.b, false)
				pick := it.branch(fr, lt)
				if pick == isMax {
					acc = y
				}
			}
		}
		return acc
	case "ssa:wrapnilchk":
		p := args[0].(Ptr)
		if p.cell == nil && p.sarr == nil {
			recv, _ := args[1].(Str).concrete()
			meth, _ := args[2].(Str).concrete()
			it.goPanicf(fr, "value method %s.%s called using nil *%s pointer", recv, meth, recv)
		}
		return p
	case "Add": // unsafe.Add
		p := args[0].(Ptr)
		n := it.concreteInt(fr, args[1].(*Term), "unsafe.Add")
		if n == 0 {
			return p
		}
		it.abort("unmodelled", "unsafe.Add with non-zero offset at "+it.stackString(fr))
	case "String": // unsafe.String(ptr *byte, len)
		p := args[0].(Ptr)
		n := int(it.concreteInt(fr, args[1].(*Term), "unsafe.String"))
		if n == 0 {
			return Str{}
		}
		arr := it.arrayAt(fr, p)
		if len(arr) < n {
			it.goPanicf(fr, "unsafe.String: len out of range")
		}
		return Str{b: arr[:n:n], obj: p.obj}
	case "StringData":
		s := args[0].(Str)
		if len(s.b) == 0 {
			return Ptr{}
		}
		return Ptr{cell: &s.b[0], obj: s.obj, elems: s.b}
	case "Slice": // unsafe.Slice(ptr, len)
		p := args[0].(Ptr)
		n := int(it.concreteInt(fr, args[1].(*Term), "unsafe.Slice"))
		if p.cell == nil {
			if n == 0 {
				return Slice{}
			}
			it.goPanicf(fr, "unsafe.Slice: ptr is nil and len is not zero")
		}
		arr := it.arrayAt(fr, p)
		if len(arr) < n {
			it.goPanicf(fr, "unsafe.Slice: len out of range")
		}
		return Slice{a: arr[:n:n], obj: p.obj}
	case "SliceData":
		s := args[0].(Slice)
		if cap(s.a) == 0 {
			return Ptr{obj: s.obj}
		}
		full := s.a[:cap(s.a)]
		return Ptr{cell: &full[0], obj: s.obj, elems: full}
	}
	it.abort("unmodelled", fmt.Sprintf("builtin %s on %T at %s", b.Name(), args, it.stackString(fr)))
	return nil
}

// arrayAt returns the element run starting at p (a pointer obtained from StringData/SliceData/&a[i]).
func (it *Interp) arrayAt(fr *frame, p Ptr) []Value {
	if p.elems != nil {
		return p.elems
	}
	it.abort("unmodelled", "unsafe.String/Slice on a pointer of unknown provenance at "+it.stackString(fr))
	return nil
}

// ---- intrinsics

var intrinsics = map[string]intrinsicFn{}

func strArg(v Value) string {
	s, ok := v.(Str).concrete()
	if !ok {
		panic("intrinsic: symbolic string where a constant is required")
	}
	return s
}

func termArg(v Value) *Term { return v.(*Term) }

func init() {
	// ---- vp harness API
	intrinsics["github.com/go-ap/activitypub.vpByte"] = func(it *Interp, fr *frame, args []Value) Value {
		return it.newByte()
	}
	intrinsics["github.com/go-ap/activitypub.vpChoice"] = func(it *Interp, fr *frame, args []Value) Value {
		n := int(it.concreteInt(fr, termArg(args[0]), "vpChoice"))
		return mkConst(64, uint64(it.choice(fr, n, true)))
	}
	intrinsics["github.com/go-ap/activitypub.vpInt"] = func(it *Interp, fr *frame, args []Value) Value {
		lo, hi := termArg(args[0]), termArg(args[1])
		ps := it.ps
		id := ps.nsyms
		ps.nsyms++
		ps.symW[id] = 64
		s := mkSym(64, id)
		ps.draws = append(ps.draws, Draw{Kind: "int", Sym: id, W: 64})
		it.assume(fr, mkAnd(mkBin(OpSle, lo, s), mkBin(OpSle, s, hi)))
		return s
	}
	intrinsics["github.com/go-ap/activitypub.vpAssume"] = func(it *Interp, fr *frame, args []Value) Value {
		it.assume(fr, termArg(args[0]))
		return nil
	}
	intrinsics["github.com/go-ap/activitypub.vpAssert"] = func(it *Interp, fr *frame, args []Value) Value {
		it.check(fr, strArg(args[0]), termArg(args[1]))
		return nil
	}
	intrinsics["github.com/go-ap/activitypub.vpReach"] = func(it *Interp, fr *frame, args []Value) Value {
		it.ps.reached = append(it.ps.reached, strArg(args[0]))
		return nil
	}
	intrinsics["github.com/go-ap/activitypub.vpFreeze"] = func(it *Interp, fr *frame, args []Value) Value {
		it.freezeAll(fr)
		return nil
	}
	intrinsics["github.com/go-ap/activitypub.vpObserve"] = func(it *Interp, fr *frame, args []Value) Value {
		it.ps.observes = append(it.ps.observes, obsRec{strArg(args[0]), args[1]})
		return nil
	}
	intrinsics["github.com/go-ap/activitypub.vpEvents"] = func(it *Interp, fr *frame, args []Value) Value {
		it.ps.eventsOff = termArg(args[0]).False()
		return nil
	}
	intrinsics["github.com/go-ap/activitypub.vpSymbolic"] = func(it *Interp, fr *frame, args []Value) Value {
		return tTrue
	}

	// ---- internal/bytealg
	intrinsics["internal/bytealg.IndexByteString"] = func(it *Interp, fr *frame, args []Value) Value {
		return it.indexByte(fr, args[0].(Str).b, termArg(args[1]))
	}
	intrinsics["internal/bytealg.IndexByte"] = func(it *Interp, fr *frame, args []Value) Value {
		return it.indexByte(fr, args[0].(Slice).a, termArg(args[1]))
	}
	intrinsics["internal/bytealg.LastIndexByteString"] = func(it *Interp, fr *frame, args []Value) Value {
		return it.lastIndexByte(fr, args[0].(Str).b, termArg(args[1]))
	}
	intrinsics["internal/bytealg.LastIndexByte"] = func(it *Interp, fr *frame, args []Value) Value {
		return it.lastIndexByte(fr, args[0].(Slice).a, termArg(args[1]))
	}
	intrinsics["internal/bytealg.CountString"] = func(it *Interp, fr *frame, args []Value) Value {
		return countByte(args[0].(Str).b, termArg(args[1]))
	}
	intrinsics["internal/bytealg.Count"] = func(it *Interp, fr *frame, args []Value) Value {
		return countByte(args[0].(Slice).a, termArg(args[1]))
	}
	intrinsics["internal/bytealg.Equal"] = func(it *Interp, fr *frame, args []Value) Value {
		return strEq(args[0].(Slice).a, args[1].(Slice).a)
	}
	intrinsics["bytes.Equal"] = intrinsics["internal/bytealg.Equal"]
	intrinsics["internal/bytealg.Compare"] = func(it *Interp, fr *frame, args []Value) Value {
		return compareBytes(args[0].(Slice).a, args[1].(Slice).a)
	}
	intrinsics["internal/bytealg.CompareString"] = func(it *Interp, fr *frame, args []Value) Value {
		return compareBytes(args[0].(Str).b, args[1].(Str).b)
	}
	intrinsics["internal/bytealg.IndexString"] = func(it *Interp, fr *frame, args []Value) Value {
		return it.indexSub(fr, args[0].(Str).b, args[1].(Str).b)
	}
	intrinsics["internal/bytealg.Index"] = func(it *Interp, fr *frame, args []Value) Value {
		return it.indexSub(fr, args[0].(Slice).a, args[1].(Slice).a)
	}
	intrinsics["internal/bytealg.MakeNoZero"] = func(it *Interp, fr *frame, args []Value) Value {
		n := int(it.concreteInt(fr, termArg(args[0]), "MakeNoZero"))
		cp := int(roundupsize(int64(n)))
		a := make([]Value, n, cp)
		full := a[:cp]
		for i := range full {
			full[i] = constBytes[0]
		}
		return Slice{a: a, obj: it.newObj(int64(cp), "MakeNoZero")}
	}
	intrinsics["internal/stringslite.Index"] = nil
	delete(intrinsics, "internal/stringslite.Index")

	// ---- fastjson header puns
	intrinsics["github.com/valyala/fastjson.b2s"] = func(it *Interp, fr *frame, args []Value) Value {
		s := args[0].(Slice)
		if len(s.a) == 0 {
			return Str{}
		}
		return Str{b: s.a[:len(s.a):len(s.a)], obj: s.obj}
	}
	intrinsics["github.com/valyala/fastjson.s2b"] = func(it *Interp, fr *frame, args []Value) Value {
		s := args[0].(Str)
		if len(s.b) == 0 {
			return Slice{}
		}
		return Slice{a: s.b[:len(s.b):len(s.b)], obj: s.obj}
	}

	// ---- misc runtime-ish
	intrinsics["internal/abi.NoEscape"] = func(it *Interp, fr *frame, args []Value) Value { return args[0] }
	intrinsics["internal/abi.Escape"] = func(it *Interp, fr *frame, args []Value) Value { return args[0] }
	intrinsics["runtime.KeepAlive"] = func(it *Interp, fr *frame, args []Value) Value { return nil }
	intrinsics["internal/godebug.(*Setting).Value"] = func(it *Interp, fr *frame, args []Value) Value { return Str{} }
	intrinsics["internal/godebug.(*Setting).IncNonDefault"] = func(it *Interp, fr *frame, args []Value) Value { return nil }
	intrinsics["internal/godebug.New"] = func(it *Interp, fr *frame, args []Value) Value { return Ptr{} }

	// ---- math
	f1 := func(f func(float64) float64) intrinsicFn {
		return func(it *Interp, fr *frame, args []Value) Value { return f(args[0].(float64)) }
	}
	intrinsics["math.Floor"] = f1(math.Floor)
	intrinsics["math.Ceil"] = f1(math.Ceil)
	intrinsics["math.Trunc"] = f1(math.Trunc)
	intrinsics["math.Sqrt"] = f1(math.Sqrt)
	intrinsics["math.Abs"] = f1(math.Abs)
	intrinsics["math.Log"] = f1(math.Log)
	intrinsics["math.Log2"] = f1(math.Log2)
	intrinsics["math.Log10"] = f1(math.Log10)
	intrinsics["math.Exp"] = f1(math.Exp)
	intrinsics["math.Round"] = f1(math.Round)
	intrinsics["math.Mod"] = func(it *Interp, fr *frame, args []Value) Value {
		return math.Mod(args[0].(float64), args[1].(float64))
	}
	intrinsics["math.Pow"] = func(it *Interp, fr *frame, args []Value) Value {
		return math.Pow(args[0].(float64), args[1].(float64))
	}
	intrinsics["math.Modf"] = func(it *Interp, fr *frame, args []Value) Value {
		a, b := math.Modf(args[0].(float64))
		return Tuple{a, b}
	}
	intrinsics["math.Frexp"] = func(it *Interp, fr *frame, args []Value) Value {
		a, b := math.Frexp(args[0].(float64))
		return Tuple{a, mkConst(64, uint64(int64(b)))}
	}
	intrinsics["math.Ldexp"] = func(it *Interp, fr *frame, args []Value) Value {
		return math.Ldexp(args[0].(float64), int(it.concreteInt(fr, termArg(args[1]), "Ldexp")))
	}
	intrinsics["math.IsNaN"] = func(it *Interp, fr *frame, args []Value) Value { return mkBool(math.IsNaN(args[0].(float64))) }
	intrinsics["math.IsInf"] = func(it *Interp, fr *frame, args []Value) Value {
		return mkBool(math.IsInf(args[0].(float64), int(termArg(args[1]).S())))
	}
	intrinsics["math.Inf"] = func(it *Interp, fr *frame, args []Value) Value { return math.Inf(int(termArg(args[0]).S())) }
	intrinsics["math.NaN"] = func(it *Interp, fr *frame, args []Value) Value { return math.NaN() }
	intrinsics["math.Float64bits"] = func(it *Interp, fr *frame, args []Value) Value {
		return mkConst(64, math.Float64bits(args[0].(float64)))
	}
	intrinsics["math.Float64frombits"] = func(it *Interp, fr *frame, args []Value) Value {
		return math.Float64frombits(uint64(it.concreteInt(fr, termArg(args[0]), "Float64frombits")))
	}
	intrinsics["math.Float32bits"] = func(it *Interp, fr *frame, args []Value) Value {
		return mkConst(32, uint64(math.Float32bits(args[0].(float32))))
	}
	intrinsics["math.Float32frombits"] = func(it *Interp, fr *frame, args []Value) Value {
		return math.Float32frombits(uint32(it.concreteInt(fr, termArg(args[0]), "Float32frombits")))
	}

	// ---- sync / atomic (single-threaded semantics)
	for _, ty := range []string{"Int32", "Int64", "Uint32", "Uint64", "Uintptr", "Pointer"} {
		ty := ty
		intrinsics["sync/atomic.Load"+ty] = func(it *Interp, fr *frame, args []Value) Value {
			p := args[0].(Ptr)
			if p.cell == nil {
				it.goPanicf(fr, "invalid memory address or nil pointer dereference (atomic load)")
			}
			return *p.cell
		}
		intrinsics["sync/atomic.Store"+ty] = func(it *Interp, fr *frame, args []Value) Value {
			p := args[0].(Ptr)
			it.store(fr, p, args[1], nil)
			return nil
		}
		intrinsics["sync/atomic.Swap"+ty] = func(it *Interp, fr *frame, args []Value) Value {
			p := args[0].(Ptr)
			if p.cell == nil {
				it.goPanicf(fr, "invalid memory address or nil pointer dereference (atomic swap)")
			}
			old := *p.cell
			it.store(fr, p, args[1], nil)
			return old
		}
		intrinsics["sync/atomic.CompareAndSwap"+ty] = func(it *Interp, fr *frame, args []Value) Value {
			p := args[0].(Ptr)
			if p.cell == nil {
				it.goPanicf(fr, "invalid memory address or nil pointer dereference (atomic cas)")
			}
			eq := it.equal(fr, *p.cell, args[1])
			if it.branch(fr, eq) {
				it.store(fr, p, args[2], nil)
				return tTrue
			}
			return tFalse
		}
		if ty != "Pointer" {
			intrinsics["sync/atomic.Add"+ty] = func(it *Interp, fr *frame, args []Value) Value {
				p := args[0].(Ptr)
				if p.cell == nil {
					it.goPanicf(fr, "invalid memory address or nil pointer dereference (atomic add)")
				}
				n := mkBin(OpAdd, (*p.cell).(*Term), termArg(args[1]))
				it.store(fr, p, n, nil)
				return n
			}
		}
	}
	intrinsics["(*sync.Pool).Get"] = func(it *Interp, fr *frame, args []Value) Value {
		p := args[0].(Ptr)
		sv := (*p.cell).(StructV)
		// field "New" is the last field
		nf := sv.f[len(sv.f)-1].(FuncV)
		if nf.fn == nil {
			return Iface{}
		}
		return it.call(fr, nf, nil)
	}
	intrinsics["(*sync.Pool).Put"] = func(it *Interp, fr *frame, args []Value) Value { return nil }
	intrinsics["sync.runtime_registerPoolCleanup"] = func(it *Interp, fr *frame, args []Value) Value { return nil }
	intrinsics["sync.runtime_Semacquire"] = func(it *Interp, fr *frame, args []Value) Value { return nil }
	intrinsics["sync.runtime_Semrelease"] = func(it *Interp, fr *frame, args []Value) Value { return nil }
	intrinsics["sync.throw"] = func(it *Interp, fr *frame, args []Value) Value {
		panic(&goPanic{fatal: true, msg: "sync: fatal error", pos: it.stackString(fr)})
	}
	intrinsics["sync.fatal"] = intrinsics["sync.throw"]
}

func (it *Interp) newByte() *Term {
	ps := it.ps
	id := ps.nsyms
	ps.nsyms++
	ps.symW[id] = 8
	d := fullSet()
	ps.domains[id] = &d
	ps.draws = append(ps.draws, Draw{Kind: "byte", Sym: id, W: 8})
	return mkSym(8, id)
}

func (it *Interp) indexByte(fr *frame, b []Value, c *Term) Value {
	for i, x := range b {
		eq := mkBin(OpEq, x.(*Term), c)
		if it.branch(fr, eq) {
			return mkConst(64, uint64(i))
		}
	}
	return mkConst(64, ^uint64(0))
}

func (it *Interp) lastIndexByte(fr *frame, b []Value, c *Term) Value {
	for i := len(b) - 1; i >= 0; i-- {
		eq := mkBin(OpEq, b[i].(*Term), c)
		if it.branch(fr, eq) {
			return mkConst(64, uint64(i))
		}
	}
	return mkConst(64, ^uint64(0))
}

func countByte(b []Value, c *Term) Value {
	n := mkConst(64, 0)
	for _, x := range b {
		n = mkBin(OpAdd, n, boolToBV(mkBin(OpEq, x.(*Term), c), 64))
	}
	return n
}

func compareBytes(a, b []Value) Value {
	// -1, 0, +1
	lt := strLess(a, b, false)
	eq := tFalse
	if len(a) == len(b) {
		eq = strEq(a, b)
	}
	return mkIte(eq, mkConst(64, 0), mkIte(lt, mkConst(64, ^uint64(0)), mkConst(64, 1)))
}

func (it *Interp) indexSub(fr *frame, s, sub []Value) Value {
	n := len(sub)
	for i := 0; i+n <= len(s); i++ {
		eq := strEq(s[i:i+n], sub)
		if it.branch(fr, eq) {
			return mkConst(64, uint64(i))
		}
	}
	return mkConst(64, ^uint64(0))
}

// freezeAll marks every object reachable from package-level variables and from the caller's
// registers as read-only.
func (it *Interp) freezeAll(fr *frame) {
	seen := map[*Obj]bool{}
	seenCell := map[*Value]bool{}
	var walk func(v Value)
	mark := func(o *Obj) {
		if o != nil && o != constStrObj {
			o.frozen = true
			if o.epoch < it.epoch && !seen[o] {
				it.frozenPre = append(it.frozenPre, o)
			}
			seen[o] = true
		}
	}
	walk = func(v Value) {
		switch x := v.(type) {
		case Ptr:
			mark(x.obj)
			if x.cell != nil && !seenCell[x.cell] {
				seenCell[x.cell] = true
				walk(*x.cell)
			}
		case Slice:
			mark(x.obj)
			if cap(x.a) > 0 {
				full := x.a[:cap(x.a)]
				if !seenCell[&full[0]] {
					seenCell[&full[0]] = true
					for _, e := range full {
						walk(e)
					}
				}
			}
		case Str:
			mark(x.obj)
		case StructV:
			for _, f := range x.f {
				walk(f)
			}
		case ArrayV:
			for _, f := range x.a {
				walk(f)
			}
		case Iface:
			if x.t != nil {
				walk(x.v)
			}
		case *MapObj:
			if x != nil {
				mark(x.obj)
				for _, e := range x.entries {
					walk(e.k)
					walk(e.v)
				}
			}
		case FuncV:
			for _, e := range x.env {
				walk(e)
			}
		case Tuple:
			for _, e := range x {
				walk(e)
			}
		}
	}
	for f := fr; f != nil; f = f.caller {
		for _, v := range f.env {
			walk(v)
		}
	}
	for g, p := range it.globals {
		if g.Pkg != nil && g.Pkg.Pkg.Path() == "github.com/go-ap/activitypub" {
			walk(p)
		}
	}
}
