package main

import (
	"fmt"
	"go/types"
	"math"

	"golang.org/x/tools/go/ssa"
)

func (it *Interp) callBuiltin(fr *frame, b *ssa.Builtin, args []Value, c *ssa.CallCommon) Value {
	switch b.Name() {
	case "len":
		switch x := args[0].(type) {
		case Str:
			return mkConst(64, uint64(len(x.b)))
		case Slice:
			return mkConst(64, uint64(len(x.a)))
		case ArrayV:
			return mkConst(64, uint64(len(x.a)))
		case Ptr:
			if x.cell == nil {
				// len of nil *array is the array length (static); need type
				if c != nil {
					if pt, ok := c.Args[0].Type().Underlying().(*types.Pointer); ok {
						return mkConst(64, uint64(pt.Elem().Underlying().(*types.Array).Len()))
					}
				}
				return mkConst(64, 0)
			}
			return mkConst(64, uint64(len((*x.cell).(ArrayV).a)))
		case *MapObj:
			if x == nil {
				return mkConst(64, 0)
			}
			return mkConst(64, uint64(x.n))
		}
	case "cap":
		switch x := args[0].(type) {
		case Slice:
			return mkConst(64, uint64(cap(x.a)))
		case ArrayV:
			return mkConst(64, uint64(len(x.a)))
		case Ptr:
			if x.cell == nil {
				return mkConst(64, 0)
			}
			return mkConst(64, uint64(len((*x.cell).(ArrayV).a)))
		}
	case "append":
		s := args[0].(Slice)
		var et *TInfo
		if c != nil {
			et = it.p.tt.Of(c.Args[0].Type().Underlying().(*types.Slice).Elem())
		} else {
			et = it.p.tt.Of(types.Typ[types.Uint8])
		}
		switch e := args[1].(type) {
		case Slice:
			return it.appendValues(fr, s, e.a, et)
		case Str:
			return it.appendValues(fr, s, e.b, et)
		}
	case "copy":
		dst := args[0].(Slice)
		var src []Value
		switch s := args[1].(type) {
		case Slice:
			src = s.a
		case Str:
			src = s.b
		}
		n := len(dst.a)
		if len(src) < n {
			n = len(src)
		}
		if n > 0 {
			// handle overlap like memmove
			tmp := make([]Value, n)
			for i := 0; i < n; i++ {
				tmp[i] = copyVal(src[i])
			}
			for i := 0; i < n; i++ {
				p := Ptr{cell: &dst.a[i], obj: dst.obj}
				it.storeCell(fr, p, p.cell, tmp[i])
			}
		}
		return mkConst(64, uint64(n))
	case "delete":
		it.mapDelete(fr, args[0].(*MapObj), args[1])
		return nil
	case "clear":
		switch x := args[0].(type) {
		case *MapObj:
			if x != nil {
				it.curFrame = fr
				it.mapJournal(x)
				x.entries = nil
				x.idx = map[string]int{}
				x.n = 0
				x.hasSym = false
			}
		case Slice:
			et := it.p.tt.Of(c.Args[0].Type().Underlying().(*types.Slice).Elem())
			for i := range x.a {
				p := Ptr{cell: &x.a[i], obj: x.obj}
				it.storeCell(fr, p, p.cell, it.zero(et))
			}
		}
		return nil
	case "panic":
		if it.spec > 0 {
			panic(specFail{"panic"})
		}
		panic(&goPanic{val: args[0], msg: it.describePanic(args[0]), pos: it.stackString(fr)})
	case "recover":
		if it.spec > 0 {
			panic(specFail{"recover"})
		}
		// must be called directly by a deferred function of a panicking frame
		if fr != nil && fr.caller != nil && fr.caller.panicking {
			fr.caller.panicking = false
			gp := fr.caller.panicVal
			fr.caller.panicVal = nil
			if gp.val == nil {
				return Iface{}
			}
			return gp.val
		}
		return Iface{}
	case "print", "println":
		return nil
	case "min", "max":
		isMax := b.Name() == "max"
		acc := args[0]
		for _, a := range args[1:] {
			switch x := acc.(type) {
			case *Term:
				y := a.(*Term)
				ti := it.p.tt.Of(c.Args[0].Type())
				var lt *Term
				if ti.signed {
					lt = mkBin(OpSlt, x, y)
				} else {
					lt = mkBin(OpUlt, x, y)
				}
				if isMax {
					acc = mkIte(lt, y, x)
				} else {
					acc = mkIte(lt, x, y)
				}
			case float64:
				y := a.(float64)
				if isMax {
					acc = math.Max(x, y)
				} else {
					acc = math.Min(x, y)
				}
			case Str:
				y := a.(Str)
				lt := strLess(x.b, y.b, false)
				pick := it.branch(fr, lt)
				if pick == isMax {
					acc = y
				}
			}
		}
		return acc
	case "ssa:wrapnilchk":
		p := args[0].(Ptr)
		if p.cell == nil && p.sarr == nil {
			recv, _ := args[1].(Str).concrete()
			meth, _ := args[2].(Str).concrete()
			it.goPanicf(fr, "value method %s.%s called using nil *%s pointer", recv, meth, recv)
		}
		return p
	case "Add": // unsafe.Add
		p := args[0].(Ptr)
		n := it.concreteInt(fr, args[1].(*Term), "unsafe.Add")
		if n == 0 {
			return p
		}
		it.abort("unmodelled", "unsafe.Add with non-zero offset at "+it.stackString(fr))
	case "String": // unsafe.String(ptr *byte, len)
		p := args[0].(Ptr)
		n := int(it.concreteInt(fr, args[1].(*Term), "unsafe.String"))
		if n == 0 {
			return Str{}
		}
		arr := it.arrayAt(fr, p)
		if len(arr) < n {
			it.goPanicf(fr, "unsafe.String: len out of range")
		}
		return Str{b: arr[:n:n], obj: p.obj}
	case "StringData":
		s := args[0].(Str)
		if len(s.b) == 0 {
			return Ptr{}
		}
		return Ptr{cell: &s.b[0], obj: s.obj, elems: s.b}
	case "Slice": // unsafe.Slice(ptr, len)
		p := args[0].(Ptr)
		n := int(it.concreteInt(fr, args[1].(*Term), "unsafe.Slice"))
		if p.cell == nil {
			if n == 0 {
				return Slice{}
			}
			it.goPanicf(fr, "unsafe.Slice: ptr is nil and len is not zero")
		}
		arr := it.arrayAt(fr, p)
		if len(arr) < n {
			it.goPanicf(fr, "unsafe.Slice: len out of range")
		}
		return Slice{a: arr[:n:n], obj: p.obj}
	case "SliceData":
		s := args[0].(Slice)
		if cap(s.a) == 0 {
			return Ptr{obj: s.obj}
		}
		full := s.a[:cap(s.a)]
		return Ptr{cell: &full[0], obj: s.obj, elems: full}
	}
	it.abort("unmodelled", fmt.Sprintf("builtin %s on %T at %s", b.Name(), args, it.stackString(fr)))
	return nil
}

// arrayAt returns the element run starting at p (a pointer obtained from StringData/SliceData/&a[i]).
func (it *Interp) arrayAt(fr *frame, p Ptr) []Value {
	if p.elems != nil {
		return p.elems
	}
	it.abort("unmodelled", "unsafe.String/Slice on a pointer of unknown provenance at "+it.stackString(fr))
	return nil
}

// ---- intrinsics

var intrinsics = map[string]intrinsicFn{}

func strArg(v Value) string {
	s, ok := v.(Str).concrete()
	if !ok {
		panic("intrinsic: symbolic string where a constant is required")
	}
	return s
}

func termArg(v Value) *Term { return v.(*Term) }

func init() {
	// ---- vp harness API
	intrinsics["github.com/go-ap/activitypub.vpByte"] = func(it *Interp, fr *frame, args []Value) Value {
		return it.newByte()
	}
	intrinsics["github.com/go-ap/activitypub.vpChoice"] = func(it *Interp, fr *frame, args []Value) Value {
		n := int(it.concreteInt(fr, termArg(args[0]), "vpChoice"))
		return mkConst(64, uint64(it.choice(fr, n, true)))
	}
	intrinsics["github.com/go-ap/activitypub.vpInt"] = func(it *Interp, fr *frame, args []Value) Value {
		lo, hi := termArg(args[0]), termArg(args[1])
		if lo.op == OpConst && hi.op == OpConst && hi.S() >= lo.S() && hi.S()-lo.S() < 256 {
			// a small range is a byte symbol plus an offset, so the byte-domain machinery applies
			b := it.newByte()
			d := &it.ps.draws[len(it.ps.draws)-1]
			d.Kind = "int"
			d.Off = lo.S()
			it.assume(fr, mkBin(OpUle, b, mkConst(8, uint64(hi.S()-lo.S()))))
			return mkBin(OpAdd, mkResize(b, 64, false), mkConst(64, uint64(lo.S())))
		}
		ps := it.ps
		id := ps.nsyms
		ps.nsyms++
		ps.symW[id] = 64
		s := mkSym(64, id)
		ps.draws = append(ps.draws, Draw{Kind: "int", Sym: id, W: 64})
		it.assume(fr, mkAnd(mkBin(OpSle, lo, s), mkBin(OpSle, s, hi)))
		return s
	}
	intrinsics["github.com/go-ap/activitypub.vpAssume"] = func(it *Interp, fr *frame, args []Value) Value {
		it.assume(fr, termArg(args[0]))
		return nil
	}
	intrinsics["github.com/go-ap/activitypub.vpAssert"] = func(it *Interp, fr *frame, args []Value) Value {
		it.check(fr, strArg(args[0]), termArg(args[1]))
		return nil
	}
	intrinsics["github.com/go-ap/activitypub.vpReach"] = func(it *Interp, fr *frame, args []Value) Value {
		it.ps.reached = append(it.ps.reached, strArg(args[0]))
		return nil
	}
	intrinsics["github.com/go-ap/activitypub.vpFreeze"] = func(it *Interp, fr *frame, args []Value) Value {
		it.freezeAll(fr)
		return nil
	}
	intrinsics["github.com/go-ap/activitypub.vpObserve"] = func(it *Interp, fr *frame, args []Value) Value {
		it.ps.observes = append(it.ps.observes, obsRec{strArg(args[0]), args[1]})
		return nil
	}
	intrinsics["github.com/go-ap/activitypub.vpEvents"] = func(it *Interp, fr *frame, args []Value) Value {
		it.ps.eventsOff = termArg(args[0]).False()
		return nil
	}
	intrinsics["github.com/go-ap/activitypub.vpGobHostile"] = func(it *Interp, fr *frame, args []Value) Value {
		it.gobHostile = termArg(args[0]).True()
		return nil
	}
	intrinsics["github.com/go-ap/activitypub.vpSymbolic"] = func(it *Interp, fr *frame, args []Value) Value {
		return tTrue
	}

	// ---- internal/bytealg
	intrinsics["internal/bytealg.IndexByteString"] = func(it *Interp, fr *frame, args []Value) Value {
		return it.indexByte(fr, args[0].(Str).b, termArg(args[1]))
	}
	intrinsics["internal/bytealg.IndexByte"] = func(it *Interp, fr *frame, args []Value) Value {
		return it.indexByte(fr, args[0].(Slice).a, termArg(args[1]))
	}
	intrinsics["internal/bytealg.LastIndexByteString"] = func(it *Interp, fr *frame, args []Value) Value {
		return it.lastIndexByte(fr, args[0].(Str).b, termArg(args[1]))
	}
	intrinsics["internal/bytealg.LastIndexByte"] = func(it *Interp, fr *frame, args []Value) Value {
		return it.lastIndexByte(fr, args[0].(Slice).a, termArg(args[1]))
	}
	intrinsics["internal/bytealg.CountString"] = func(it *Interp, fr *frame, args []Value) Value {
		return countByte(args[0].(Str).b, termArg(args[1]))
	}
	intrinsics["internal/bytealg.Count"] = func(it *Interp, fr *frame, args []Value) Value {
		return countByte(args[0].(Slice).a, termArg(args[1]))
	}
	intrinsics["internal/bytealg.Equal"] = func(it *Interp, fr *frame, args []Value) Value {
		return strEq(args[0].(Slice).a, args[1].(Slice).a)
	}
	intrinsics["bytes.Equal"] = intrinsics["internal/bytealg.Equal"]
	intrinsics["internal/bytealg.Compare"] = func(it *Interp, fr *frame, args []Value) Value {
		return compareBytes(args[0].(Slice).a, args[1].(Slice).a)
	}
	intrinsics["internal/bytealg.CompareString"] = func(it *Interp, fr *frame, args []Value) Value {
		return compareBytes(args[0].(Str).b, args[1].(Str).b)
	}
	intrinsics["internal/bytealg.IndexString"] = func(it *Interp, fr *frame, args []Value) Value {
		return it.indexSub(fr, args[0].(Str).b, args[1].(Str).b)
	}
	intrinsics["internal/bytealg.Index"] = func(it *Interp, fr *frame, args []Value) Value {
		return it.indexSub(fr, args[0].(Slice).a, args[1].(Slice).a)
	}
	intrinsics["internal/bytealg.MakeNoZero"] = func(it *Interp, fr *frame, args []Value) Value {
		n := int(it.concreteInt(fr, termArg(args[0]), "MakeNoZero"))
		cp := int(roundupsize(int64(n)))
		a := make([]Value, n, cp)
		full := a[:cp]
		for i := range full {
			full[i] = constBytes[0]
		}
		return Slice{a: a, obj: it.newObj(int64(cp), "MakeNoZero")}
	}
	intrinsics["internal/stringslite.Index"] = nil
	delete(intrinsics, "internal/stringslite.Index")

	// ---- errors built with formatting: an opaque non-nil error whose text is not inspected
	intrinsics["fmt.Errorf"] = func(it *Interp, fr *frame, args []Value) Value { return it.opaqueError() }
	intrinsics["github.com/go-ap/errors.Errorf"] = func(it *Interp, fr *frame, args []Value) Value { return it.opaqueError() }
	intrinsics["github.com/go-ap/errors.Newf"] = func(it *Interp, fr *frame, args []Value) Value {
		// returns *errors.Err: a fresh zero value of the struct
		return it.newOf(fr, "github.com/go-ap/errors", "Err")
	}
	intrinsics["github.com/go-ap/errors.Annotatef"] = func(it *Interp, fr *frame, args []Value) Value {
		return it.newOf(fr, "github.com/go-ap/errors", "Err")
	}

	// ---- reflect (subset the package uses), answered from go/types
	intrinsics["reflect.TypeOf"] = func(it *Interp, fr *frame, args []Value) Value {
		x := args[0].(Iface)
		if x.t == nil {
			return Iface{}
		}
		return it.rtype(x.t)
	}
	intrinsics["reflect.TypeFor"] = func(it *Interp, fr *frame, args []Value) Value {
		targs := it.curCallee.TypeArgs()
		if len(targs) != 1 {
			it.abort("unmodelled", "reflect.TypeFor without type argument")
		}
		return it.rtype(it.p.tt.Of(targs[0]))
	}
	intrinsics["(*reflect.rtype).ConvertibleTo"] = func(it *Interp, fr *frame, args []Value) Value {
		a := it.rtypeArg(fr, args[0])
		u := args[1].(Iface)
		if u.t == nil {
			it.goPanicf(fr, "reflect: nil type passed to Type.ConvertibleTo")
		}
		b := it.rtypeArg(fr, u.v)
		return mkBool(types.ConvertibleTo(a.t, b.t))
	}
	intrinsics["(*reflect.rtype).AssignableTo"] = func(it *Interp, fr *frame, args []Value) Value {
		a := it.rtypeArg(fr, args[0])
		u := args[1].(Iface)
		if u.t == nil {
			it.goPanicf(fr, "reflect: nil type passed to Type.AssignableTo")
		}
		b := it.rtypeArg(fr, u.v)
		return mkBool(types.AssignableTo(a.t, b.t))
	}
	intrinsics["(*reflect.rtype).Implements"] = func(it *Interp, fr *frame, args []Value) Value {
		a := it.rtypeArg(fr, args[0])
		u := args[1].(Iface)
		if u.t == nil {
			it.goPanicf(fr, "reflect: nil type passed to Type.Implements")
		}
		b := it.rtypeArg(fr, u.v)
		iface, ok := b.t.Underlying().(*types.Interface)
		if !ok {
			it.goPanicf(fr, "reflect: non-interface type passed to Type.Implements")
		}
		return mkBool(types.Implements(a.t, iface))
	}
	intrinsics["(*reflect.rtype).Comparable"] = func(it *Interp, fr *frame, args []Value) Value {
		return mkBool(types.Comparable(it.rtypeArg(fr, args[0]).t))
	}
	intrinsics["(*reflect.rtype).Elem"] = func(it *Interp, fr *frame, args []Value) Value {
		a := it.rtypeArg(fr, args[0])
		if a.elem == nil {
			it.goPanicf(fr, "reflect: Elem of invalid type %s", a.name)
		}
		return it.rtype(a.elem)
	}
	intrinsics["(*reflect.rtype).Kind"] = func(it *Interp, fr *frame, args []Value) Value {
		return mkConst(64, uint64(reflectKind(it.rtypeArg(fr, args[0]))))
	}
	intrinsics["(*reflect.rtype).String"] = func(it *Interp, fr *frame, args []Value) Value {
		return mkStr(types.TypeString(it.rtypeArg(fr, args[0]).t, func(p *types.Package) string { return p.Name() }))
	}
	// time.quote only decorates error messages (it re-encodes every rune of the offending input)
	intrinsics["time.quote"] = func(it *Interp, fr *frame, args []Value) Value { return args[0] }
	intrinsics["reflect.ValueOf"] = func(it *Interp, fr *frame, args []Value) Value {
		return it.reflectValue(args[0].(Iface))
	}
	// sort.Slice / sort.SliceStable / sort.SliceIsSorted: the sorting algorithm is interpreted from
	// source; only the length and the element swapper come from reflectlite
	intrinsics["internal/reflectlite.ValueOf"] = func(it *Interp, fr *frame, args []Value) Value {
		return it.reflectValueOf("internal/reflectlite", args[0].(Iface))
	}
	intrinsics["(internal/reflectlite.Value).Len"] = func(it *Interp, fr *frame, args []Value) Value {
		x, ok := reflectPayload(args[0])
		if !ok {
			it.goPanicf(fr, "reflect: call of reflect.Value.Len on zero Value")
		}
		switch v := x.v.(type) {
		case Str:
			return mkConst(64, uint64(len(v.b)))
		case Slice:
			return mkConst(64, uint64(len(v.a)))
		case ArrayV:
			return mkConst(64, uint64(len(v.a)))
		}
		it.goPanicf(fr, "reflect: call of reflect.Value.Len on %s Value", x.t.name)
		return nil
	}
	swapper := func(it *Interp, fr *frame, args []Value) Value {
		x, _ := args[0].(Iface)
		sl, ok := x.v.(Slice)
		if !ok {
			it.goPanicf(fr, "reflect: call of Swapper on a non-slice value")
		}
		return FuncV{native: func(it *Interp, fr *frame, a []Value) Value {
			i := int(it.concreteInt(fr, termArg(a[0]), "swapper index"))
			j := int(it.concreteInt(fr, termArg(a[1]), "swapper index"))
			if i < 0 || j < 0 || i >= len(sl.a) || j >= len(sl.a) {
				it.goPanicf(fr, "reflect: slice index out of range")
			}
			vi, vj := copyVal(sl.a[i]), copyVal(sl.a[j])
			pi := Ptr{cell: &sl.a[i], obj: sl.obj}
			it.storeCell(fr, pi, pi.cell, vj)
			pj := Ptr{cell: &sl.a[j], obj: sl.obj}
			it.storeCell(fr, pj, pj.cell, vi)
			return nil
		}}
	}
	intrinsics["internal/reflectlite.Swapper"] = swapper
	intrinsics["reflect.Swapper"] = swapper
	intrinsics["(reflect.Value).IsValid"] = func(it *Interp, fr *frame, args []Value) Value {
		_, ok := reflectPayload(args[0])
		return mkBool(ok)
	}
	intrinsics["(reflect.Value).Kind"] = func(it *Interp, fr *frame, args []Value) Value {
		x, ok := reflectPayload(args[0])
		if !ok {
			return mkConst(64, 0)
		}
		return mkConst(64, uint64(reflectKind(x.t)))
	}
	intrinsics["(reflect.Value).IsNil"] = func(it *Interp, fr *frame, args []Value) Value {
		x, ok := reflectPayload(args[0])
		if !ok {
			it.goPanicf(fr, "reflect: call of reflect.Value.IsNil on zero Value")
		}
		switch v := x.v.(type) {
		case Ptr:
			return mkBool(v.cell == nil && v.sarr == nil)
		case Slice:
			return mkBool(v.obj == nil)
		case *MapObj:
			return mkBool(v == nil)
		case FuncV:
			return mkBool(v.fn == nil && v.bi == nil)
		case Iface:
			return mkBool(v.t == nil)
		}
		it.goPanicf(fr, "reflect: call of reflect.Value.IsNil on %s Value", x.t.name)
		return nil
	}
	intrinsics["(reflect.Value).Convert"] = func(it *Interp, fr *frame, args []Value) Value {
		x, ok := reflectPayload(args[0])
		if !ok {
			it.goPanicf(fr, "reflect: call of reflect.Value.Convert on zero Value")
		}
		u := args[1].(Iface)
		if u.t == nil {
			it.goPanicf(fr, "reflect: nil type passed to Value.Convert")
		}
		to := it.rtypeArg(fr, u.v)
		if !types.ConvertibleTo(x.t.t, to.t) {
			it.goPanicf(fr, "reflect.Value.Convert: value of type %s cannot be converted to type %s", x.t.name, to.name)
		}
		v := x.v
		switch {
		case to.kind == KPtr && x.t.kind == KPtr:
			if p := v.(Ptr); p.cell != nil {
				it.checkView(fr, p, to)
			}
		case to.kind == x.t.kind && (to.kind == KString || to.kind == KSlice || to.kind == KStruct || to.kind == KBool || to.kind == KMap):
		case to.kind == KInt && x.t.kind == KInt:
			v = mkResize(v.(*Term), to.w, x.t.signed)
		default:
			it.abort("unmodelled", fmt.Sprintf("reflect.Value.Convert %s -> %s", x.t.name, to.name))
		}
		return it.reflectValue(Iface{t: to, v: v})
	}
	rvPayload := func(it *Interp, fr *frame, v Value, what string) Iface {
		x, ok := reflectPayload(v)
		if !ok {
			it.goPanicf(fr, "reflect: call of reflect.Value.%s on zero Value", what)
		}
		return x
	}
	intrinsics["(reflect.Value).String"] = func(it *Interp, fr *frame, args []Value) Value {
		x, ok := reflectPayload(args[0])
		if !ok {
			return mkStr("<invalid Value>")
		}
		if s, isStr := x.v.(Str); isStr {
			return s
		}
		return mkStr("<" + types.TypeString(x.t.t, func(p *types.Package) string { return p.Name() }) + " Value>")
	}
	intrinsics["(reflect.Value).Int"] = func(it *Interp, fr *frame, args []Value) Value {
		x := rvPayload(it, fr, args[0], "Int")
		return mkResize(x.v.(*Term), 64, true)
	}
	intrinsics["(reflect.Value).Uint"] = func(it *Interp, fr *frame, args []Value) Value {
		x := rvPayload(it, fr, args[0], "Uint")
		return mkResize(x.v.(*Term), 64, false)
	}
	intrinsics["(reflect.Value).Bool"] = func(it *Interp, fr *frame, args []Value) Value {
		return rvPayload(it, fr, args[0], "Bool").v
	}
	intrinsics["(reflect.Value).Float"] = func(it *Interp, fr *frame, args []Value) Value {
		x := rvPayload(it, fr, args[0], "Float")
		if f, ok := x.v.(float32); ok {
			return float64(f)
		}
		return x.v
	}
	intrinsics["(reflect.Value).Len"] = func(it *Interp, fr *frame, args []Value) Value {
		x := rvPayload(it, fr, args[0], "Len")
		switch v := x.v.(type) {
		case Str:
			return mkConst(64, uint64(len(v.b)))
		case Slice:
			return mkConst(64, uint64(len(v.a)))
		case ArrayV:
			return mkConst(64, uint64(len(v.a)))
		case *MapObj:
			if v == nil {
				return mkConst(64, 0)
			}
			return mkConst(64, uint64(v.n))
		}
		it.goPanicf(fr, "reflect: call of reflect.Value.Len on %s Value", x.t.name)
		return nil
	}
	intrinsics["(reflect.Value).Index"] = func(it *Interp, fr *frame, args []Value) Value {
		x := rvPayload(it, fr, args[0], "Index")
		i := int(it.concreteInt(fr, termArg(args[1]), "reflect Index"))
		switch v := x.v.(type) {
		case Slice:
			if i < 0 || i >= len(v.a) {
				it.goPanicf(fr, "reflect: slice index out of range")
			}
			return it.reflectValue(Iface{t: x.t.elem, v: copyVal(v.a[i])})
		case ArrayV:
			if i < 0 || i >= len(v.a) {
				it.goPanicf(fr, "reflect: array index out of range")
			}
			return it.reflectValue(Iface{t: x.t.elem, v: copyVal(v.a[i])})
		case Str:
			if i < 0 || i >= len(v.b) {
				it.goPanicf(fr, "reflect: string index out of range")
			}
			return it.reflectValue(Iface{t: it.p.tt.Of(types.Typ[types.Uint8]), v: v.b[i]})
		}
		it.goPanicf(fr, "reflect: call of reflect.Value.Index on %s Value", x.t.name)
		return nil
	}
	intrinsics["(reflect.Value).Type"] = func(it *Interp, fr *frame, args []Value) Value {
		return it.rtype(rvPayload(it, fr, args[0], "Type").t)
	}
	intrinsics["(reflect.Value).Bytes"] = func(it *Interp, fr *frame, args []Value) Value {
		return rvPayload(it, fr, args[0], "Bytes").v
	}
	intrinsics["(reflect.Value).Elem"] = func(it *Interp, fr *frame, args []Value) Value {
		x := rvPayload(it, fr, args[0], "Elem")
		switch v := x.v.(type) {
		case Ptr:
			if v.cell == nil {
				return it.reflectValue(Iface{})
			}
			return it.reflectValue(Iface{t: x.t.elem, v: it.load(fr, v, x.t.elem)})
		case Iface:
			return it.reflectValue(Iface{t: v.t, v: v.v})
		}
		it.goPanicf(fr, "reflect: call of reflect.Value.Elem on %s Value", x.t.name)
		return nil
	}
	// IsZero: every leaf of the value is its zero value (a symbolic conjunction over the leaves)
	var isZero func(it *Interp, fr *frame, v Value) *Term
	isZero = func(it *Interp, fr *frame, v Value) *Term {
		switch x := v.(type) {
		case *Term:
			return mkBin(OpEq, x, mkConst(x.w, 0))
		case float64:
			return mkBool(x == 0 && !math.Signbit(x))
		case float32:
			return mkBool(x == 0 && !math.Signbit(float64(x)))
		case complex128:
			return mkBool(x == 0)
		case Str:
			return mkBool(len(x.b) == 0)
		case Ptr:
			return mkBool(x.cell == nil && x.sarr == nil)
		case Slice:
			return mkBool(x.obj == nil)
		case *MapObj:
			return mkBool(x == nil)
		case FuncV:
			return mkBool(x.fn == nil && x.bi == nil && x.native == nil)
		case Iface:
			return mkBool(x.t == nil)
		case StructV:
			r := tTrue
			for _, f := range x.f {
				r = mkAnd(r, isZero(it, fr, f))
				if r.False() {
					return r
				}
			}
			return r
		case ArrayV:
			r := tTrue
			for _, f := range x.a {
				r = mkAnd(r, isZero(it, fr, f))
				if r.False() {
					return r
				}
			}
			return r
		case nil:
			return tTrue
		}
		it.abort("unmodelled", fmt.Sprintf("reflect.Value.IsZero of %T", v))
		return nil
	}
	intrinsics["(reflect.Value).IsZero"] = func(it *Interp, fr *frame, args []Value) Value {
		x, ok := reflectPayload(args[0])
		if !ok {
			it.goPanicf(fr, "reflect: call of reflect.Value.IsZero on zero Value")
		}
		return isZero(it, fr, x.v)
	}
	intrinsics["(reflect.Value).NumField"] = func(it *Interp, fr *frame, args []Value) Value {
		x := rvPayload(it, fr, args[0], "NumField")
		return mkConst(64, uint64(len(x.v.(StructV).f)))
	}
	intrinsics["(reflect.Value).Field"] = func(it *Interp, fr *frame, args []Value) Value {
		x := rvPayload(it, fr, args[0], "Field")
		i := int(it.concreteInt(fr, termArg(args[1]), "reflect Field"))
		sv := x.v.(StructV)
		return it.reflectValue(Iface{t: x.t.fields[i], v: copyVal(sv.f[i])})
	}
	intrinsics["(reflect.Value).CanInterface"] = func(it *Interp, fr *frame, args []Value) Value { return tTrue }
	intrinsics["(reflect.Value).CanAddr"] = func(it *Interp, fr *frame, args []Value) Value { return tFalse }
	intrinsics["(reflect.Value).UnsafePointer"] = func(it *Interp, fr *frame, args []Value) Value {
		x := rvPayload(it, fr, args[0], "UnsafePointer")
		if p, ok := x.v.(Ptr); ok {
			return p
		}
		return Ptr{}
	}
	intrinsics["(reflect.Value).Pointer"] = func(it *Interp, fr *frame, args []Value) Value {
		x := rvPayload(it, fr, args[0], "Pointer")
		if p, ok := x.v.(Ptr); ok && p.cell == nil {
			return mkConst(64, 0)
		}
		return mkConst(64, 0xc000010000)
	}
	intrinsics["(*reflect.rtype).Name"] = func(it *Interp, fr *frame, args []Value) Value {
		t := it.rtypeArg(fr, args[0])
		if n, ok := t.t.(*types.Named); ok {
			return mkStr(n.Obj().Name())
		}
		if b, ok := t.t.(*types.Basic); ok {
			return mkStr(b.Name())
		}
		return Str{}
	}
	intrinsics["(*reflect.rtype).PkgPath"] = func(it *Interp, fr *frame, args []Value) Value {
		t := it.rtypeArg(fr, args[0])
		if n, ok := t.t.(*types.Named); ok && n.Obj().Pkg() != nil {
			return mkStr(n.Obj().Pkg().Path())
		}
		return Str{}
	}
	intrinsics["(*reflect.rtype).NumMethod"] = func(it *Interp, fr *frame, args []Value) Value {
		t := it.rtypeArg(fr, args[0])
		return mkConst(64, uint64(it.p.prog.MethodSets.MethodSet(t.t).Len()))
	}
	intrinsics["(reflect.Value).Interface"] = func(it *Interp, fr *frame, args []Value) Value {
		x, ok := reflectPayload(args[0])
		if !ok {
			it.goPanicf(fr, "reflect: call of reflect.Value.Interface on zero Value")
		}
		return Iface{t: x.t, v: x.v}
	}

	// ---- encoding/json.Marshal: only for strings, through the Go-source model in the harness library
	intrinsics["encoding/json.Marshal"] = func(it *Interp, fr *frame, args []Value) Value {
		x := args[0].(Iface)
		if x.t == nil || x.t.kind != KString {
			it.abort("unmodelled", "encoding/json.Marshal of a non-string value")
		}
		fn := it.p.mainPkg.Func("vpStdJSONString")
		if fn == nil {
			it.abort("unmodelled", "harness model vpStdJSONString missing")
		}
		res := it.call(fr, FuncV{fn: fn}, []Value{x.v})
		return Tuple{res, Iface{}}
	}

	// ---- time.Local is UTC (native replays run with TZ=UTC); no zone database access
	intrinsics["time.initLocal"] = func(it *Interp, fr *frame, args []Value) Value {
		pkg := it.p.prog.ImportedPackage("time")
		if pkg == nil || pkg.Var("localLoc") == nil {
			it.abort("unmodelled", "time.localLoc not found")
		}
		p := it.global(pkg.Var("localLoc"))
		sv := (*p.cell).(StructV)
		np := Ptr{cell: &sv.f[0], obj: p.obj}
		it.storeCell(fr, np, np.cell, mkStr("UTC"))
		return nil
	}
	intrinsics["time.runtimeNano"] = func(it *Interp, fr *frame, args []Value) Value { return mkConst(64, 1) }

	// ---- fastjson header puns
	intrinsics["github.com/valyala/fastjson.b2s"] = func(it *Interp, fr *frame, args []Value) Value {
		s := args[0].(Slice)
		if len(s.a) == 0 {
			return Str{}
		}
		return Str{b: s.a[:len(s.a):len(s.a)], obj: s.obj}
	}
	intrinsics["github.com/valyala/fastjson.s2b"] = func(it *Interp, fr *frame, args []Value) Value {
		s := args[0].(Str)
		if len(s.b) == 0 {
			return Slice{}
		}
		return Slice{a: s.b[:len(s.b):len(s.b)], obj: s.obj}
	}

	// ---- misc runtime-ish
	intrinsics["internal/abi.NoEscape"] = func(it *Interp, fr *frame, args []Value) Value { return args[0] }
	intrinsics["internal/abi.Escape"] = func(it *Interp, fr *frame, args []Value) Value { return args[0] }
	intrinsics["runtime.KeepAlive"] = func(it *Interp, fr *frame, args []Value) Value { return nil }
	intrinsics["internal/godebug.(*Setting).Value"] = func(it *Interp, fr *frame, args []Value) Value { return Str{} }
	intrinsics["internal/godebug.(*Setting).IncNonDefault"] = func(it *Interp, fr *frame, args []Value) Value { return nil }
	intrinsics["internal/godebug.New"] = func(it *Interp, fr *frame, args []Value) Value { return Ptr{} }

	// ---- math
	f1 := func(f func(float64) float64) intrinsicFn {
		return func(it *Interp, fr *frame, args []Value) Value { return f(args[0].(float64)) }
	}
	intrinsics["math.Floor"] = f1(math.Floor)
	intrinsics["math.Ceil"] = f1(math.Ceil)
	intrinsics["math.Trunc"] = f1(math.Trunc)
	intrinsics["math.Sqrt"] = f1(math.Sqrt)
	intrinsics["math.Abs"] = f1(math.Abs)
	intrinsics["math.Log"] = f1(math.Log)
	intrinsics["math.Log2"] = f1(math.Log2)
	intrinsics["math.Log10"] = f1(math.Log10)
	intrinsics["math.Exp"] = f1(math.Exp)
	intrinsics["math.Round"] = f1(math.Round)
	intrinsics["math.Mod"] = func(it *Interp, fr *frame, args []Value) Value {
		return math.Mod(args[0].(float64), args[1].(float64))
	}
	intrinsics["math.Pow"] = func(it *Interp, fr *frame, args []Value) Value {
		return math.Pow(args[0].(float64), args[1].(float64))
	}
	intrinsics["math.Modf"] = func(it *Interp, fr *frame, args []Value) Value {
		a, b := math.Modf(args[0].(float64))
		return Tuple{a, b}
	}
	intrinsics["math.Frexp"] = func(it *Interp, fr *frame, args []Value) Value {
		a, b := math.Frexp(args[0].(float64))
		return Tuple{a, mkConst(64, uint64(int64(b)))}
	}
	intrinsics["math.Ldexp"] = func(it *Interp, fr *frame, args []Value) Value {
		return math.Ldexp(args[0].(float64), int(it.concreteInt(fr, termArg(args[1]), "Ldexp")))
	}
	intrinsics["math.IsNaN"] = func(it *Interp, fr *frame, args []Value) Value { return mkBool(math.IsNaN(args[0].(float64))) }
	intrinsics["math.IsInf"] = func(it *Interp, fr *frame, args []Value) Value {
		return mkBool(math.IsInf(args[0].(float64), int(termArg(args[1]).S())))
	}
	intrinsics["math.Inf"] = func(it *Interp, fr *frame, args []Value) Value { return math.Inf(int(termArg(args[0]).S())) }
	intrinsics["math.NaN"] = func(it *Interp, fr *frame, args []Value) Value { return math.NaN() }
	intrinsics["math.Float64bits"] = func(it *Interp, fr *frame, args []Value) Value {
		return mkConst(64, math.Float64bits(args[0].(float64)))
	}
	intrinsics["math.Float64frombits"] = func(it *Interp, fr *frame, args []Value) Value {
		return math.Float64frombits(uint64(it.concreteInt(fr, termArg(args[0]), "Float64frombits")))
	}
	intrinsics["math.Float32bits"] = func(it *Interp, fr *frame, args []Value) Value {
		return mkConst(32, uint64(math.Float32bits(args[0].(float32))))
	}
	intrinsics["math.Float32frombits"] = func(it *Interp, fr *frame, args []Value) Value {
		return math.Float32frombits(uint32(it.concreteInt(fr, termArg(args[0]), "Float32frombits")))
	}

	// ---- sync / atomic (single-threaded semantics)
	for _, ty := range []string{"Int32", "Int64", "Uint32", "Uint64", "Uintptr", "Pointer"} {
		ty := ty
		intrinsics["sync/atomic.Load"+ty] = func(it *Interp, fr *frame, args []Value) Value {
			p := args[0].(Ptr)
			if p.cell == nil {
				it.goPanicf(fr, "invalid memory address or nil pointer dereference (atomic load)")
			}
			return *p.cell
		}
		intrinsics["sync/atomic.Store"+ty] = func(it *Interp, fr *frame, args []Value) Value {
			p := args[0].(Ptr)
			it.store(fr, p, args[1], nil)
			return nil
		}
		intrinsics["sync/atomic.Swap"+ty] = func(it *Interp, fr *frame, args []Value) Value {
			p := args[0].(Ptr)
			if p.cell == nil {
				it.goPanicf(fr, "invalid memory address or nil pointer dereference (atomic swap)")
			}
			old := *p.cell
			it.store(fr, p, args[1], nil)
			return old
		}
		intrinsics["sync/atomic.CompareAndSwap"+ty] = func(it *Interp, fr *frame, args []Value) Value {
			p := args[0].(Ptr)
			if p.cell == nil {
				it.goPanicf(fr, "invalid memory address or nil pointer dereference (atomic cas)")
			}
			eq := it.equal(fr, *p.cell, args[1])
			if it.branch(fr, eq) {
				it.store(fr, p, args[2], nil)
				return tTrue
			}
			return tFalse
		}
		if ty != "Pointer" {
			intrinsics["sync/atomic.Add"+ty] = func(it *Interp, fr *frame, args []Value) Value {
				p := args[0].(Ptr)
				if p.cell == nil {
					it.goPanicf(fr, "invalid memory address or nil pointer dereference (atomic add)")
				}
				n := mkBin(OpAdd, (*p.cell).(*Term), termArg(args[1]))
				it.store(fr, p, n, nil)
				return n
			}
		}
	}
	intrinsics["(*sync.Pool).Get"] = func(it *Interp, fr *frame, args []Value) Value {
		p := args[0].(Ptr)
		sv := (*p.cell).(StructV)
		// field "New" is the last field
		nf := sv.f[len(sv.f)-1].(FuncV)
		if nf.fn == nil {
			return Iface{}
		}
		return it.call(fr, nf, nil)
	}
	intrinsics["(*sync.Pool).Put"] = func(it *Interp, fr *frame, args []Value) Value { return nil }
	intrinsics["sync.runtime_registerPoolCleanup"] = func(it *Interp, fr *frame, args []Value) Value { return nil }
	intrinsics["sync.runtime_Semacquire"] = func(it *Interp, fr *frame, args []Value) Value { return nil }
	intrinsics["sync.runtime_Semrelease"] = func(it *Interp, fr *frame, args []Value) Value { return nil }
	intrinsics["sync.throw"] = func(it *Interp, fr *frame, args []Value) Value {
		panic(&goPanic{fatal: true, msg: "sync: fatal error", pos: it.stackString(fr)})
	}
	intrinsics["sync.fatal"] = intrinsics["sync.throw"]
}

func (it *Interp) newByte() *Term {
	ps := it.ps
	id := ps.nsyms
	ps.nsyms++
	ps.symW[id] = 8
	d := fullSet()
	ps.domains[id] = &d
	ps.draws = append(ps.draws, Draw{Kind: "byte", Sym: id, W: 8})
	return mkSym(8, id)
}

func (it *Interp) indexByte(fr *frame, b []Value, c *Term) Value {
	for i, x := range b {
		eq := mkBin(OpEq, x.(*Term), c)
		if it.branch(fr, eq) {
			return mkConst(64, uint64(i))
		}
	}
	return mkConst(64, ^uint64(0))
}

func (it *Interp) lastIndexByte(fr *frame, b []Value, c *Term) Value {
	for i := len(b) - 1; i >= 0; i-- {
		eq := mkBin(OpEq, b[i].(*Term), c)
		if it.branch(fr, eq) {
			return mkConst(64, uint64(i))
		}
	}
	return mkConst(64, ^uint64(0))
}

func countByte(b []Value, c *Term) Value {
	n := mkConst(64, 0)
	for _, x := range b {
		n = mkBin(OpAdd, n, boolToBV(mkBin(OpEq, x.(*Term), c), 64))
	}
	return n
}

func compareBytes(a, b []Value) Value {
	// -1, 0, +1
	lt := strLess(a, b, false)
	eq := tFalse
	if len(a) == len(b) {
		eq = strEq(a, b)
	}
	return mkIte(eq, mkConst(64, 0), mkIte(lt, mkConst(64, ^uint64(0)), mkConst(64, 1)))
}

func (it *Interp) indexSub(fr *frame, s, sub []Value) Value {
	n := len(sub)
	for i := 0; i+n <= len(s); i++ {
		eq := strEq(s[i:i+n], sub)
		if it.branch(fr, eq) {
			return mkConst(64, uint64(i))
		}
	}
	return mkConst(64, ^uint64(0))
}

// freezeAll marks every object reachable from package-level variables and from the caller's
// registers as read-only.
func (it *Interp) freezeAll(fr *frame) {
	seen := map[*Obj]bool{}
	seenCell := map[*Value]bool{}
	var walk func(v Value)
	mark := func(o *Obj) {
		if o != nil && o != constStrObj {
			o.frozen = true
			if o.epoch < it.epoch && !seen[o] {
				it.frozenPre = append(it.frozenPre, o)
			}
			seen[o] = true
		}
	}
	walk = func(v Value) {
		switch x := v.(type) {
		case Ptr:
			mark(x.obj)
			if x.cell != nil && !seenCell[x.cell] {
				seenCell[x.cell] = true
				walk(*x.cell)
			}
		case Slice:
			mark(x.obj)
			if cap(x.a) > 0 {
				full := x.a[:cap(x.a)]
				if !seenCell[&full[0]] {
					seenCell[&full[0]] = true
					for _, e := range full {
						walk(e)
					}
				}
			}
		case Str:
			mark(x.obj)
		case StructV:
			for _, f := range x.f {
				walk(f)
			}
		case ArrayV:
			for _, f := range x.a {
				walk(f)
			}
		case Iface:
			if x.t != nil {
				walk(x.v)
			}
		case *MapObj:
			if x != nil {
				mark(x.obj)
				for _, e := range x.entries {
					walk(e.k)
					walk(e.v)
				}
			}
		case FuncV:
			for _, e := range x.env {
				walk(e)
			}
		case Tuple:
			for _, e := range x {
				walk(e)
			}
		}
	}
	for f := fr; f != nil; f = f.caller {
		for _, v := range f.env {
			walk(v)
		}
	}
	for g, p := range it.globals {
		if g.Pkg != nil && g.Pkg.Pkg.Path() == "github.com/go-ap/activitypub" {
			walk(p)
		}
	}
}

// opaqueError returns a non-nil error value (*errors.errorString) with a fixed text.
func (it *Interp) opaqueError() Value {
	pkg := it.p.prog.ImportedPackage("errors")
	if pkg == nil {
		panic("package errors not loaded")
	}
	st := pkg.Type("errorString").Type()
	ti := it.p.tt.Of(st)
	pt := it.p.tt.Of(types.NewPointer(st))
	cell := new(Value)
	sv := it.zero(ti).(StructV)
	sv.f[0] = mkStr("error (text not modelled)")
	*cell = sv
	errT := it.p.tt.Of(types.Universe.Lookup("error").Type())
	return Iface{t: pt, v: Ptr{cell: cell, obj: it.newObj(ti.size, "error")}, itab: errT}
}

// newOf returns a pointer to a zero value of the named struct type.
func (it *Interp) newOf(fr *frame, pkgPath, name string) Value {
	pkg := it.p.prog.ImportedPackage(pkgPath)
	if pkg == nil || pkg.Type(name) == nil {
		it.abort("unmodelled", "type "+pkgPath+"."+name+" not loaded")
	}
	ti := it.p.tt.Of(pkg.Type(name).Type())
	cell := new(Value)
	*cell = it.zero(ti)
	return Ptr{cell: cell, obj: it.newObj(ti.size, name)}
}

func (it *Interp) rtype(ti *TInfo) Value {
	pkg := it.p.prog.ImportedPackage("reflect")
	if pkg == nil || pkg.Type("rtype") == nil {
		it.abort("unmodelled", "package reflect not loaded")
	}
	pt := it.p.tt.Of(types.NewPointer(pkg.Type("rtype").Type()))
	return Iface{t: pt, v: RTypeV{ti}, itab: it.p.tt.Of(pkg.Type("Type").Type())}
}

func (it *Interp) rtypeArg(fr *frame, v Value) *TInfo {
	r, ok := v.(RTypeV)
	if !ok {
		it.abort("unmodelled", fmt.Sprintf("reflect.Type backed by %T at %s", v, it.stackString(fr)))
	}
	return r.ti
}

// reflectValue builds a reflect.Value whose ptr field addresses a cell holding the boxed interface.
func (it *Interp) reflectValue(x Iface) Value { return it.reflectValueOf("reflect", x) }

// reflectValueOf builds the Value struct of package reflect or internal/reflectlite (same layout).
func (it *Interp) reflectValueOf(pkgPath string, x Iface) Value {
	pkg := it.p.prog.ImportedPackage(pkgPath)
	if pkg == nil || pkg.Type("Value") == nil {
		it.abort("unmodelled", "package "+pkgPath+" not loaded")
	}
	sv := it.zero(it.p.tt.Of(pkg.Type("Value").Type())).(StructV)
	if x.t == nil {
		return sv
	}
	cell := new(Value)
	*cell = x
	sv.f[1] = Ptr{cell: cell, obj: it.newObj(16, "reflect.Value")}
	sv.f[2] = mkConst(64, 1)
	return sv
}

func reflectPayload(v Value) (Iface, bool) {
	sv := v.(StructV)
	p, ok := sv.f[1].(Ptr)
	if !ok || p.cell == nil {
		return Iface{}, false
	}
	x, ok := (*p.cell).(Iface)
	return x, ok
}

func reflectKind(ti *TInfo) int {
	switch ti.kind {
	case KBool:
		return 1
	case KInt:
		b := ti.t.Underlying().(*types.Basic)
		switch b.Kind() {
		case types.Int:
			return 2
		case types.Int8:
			return 3
		case types.Int16:
			return 4
		case types.Int32:
			return 5
		case types.Int64:
			return 6
		case types.Uint:
			return 7
		case types.Uint8:
			return 8
		case types.Uint16:
			return 9
		case types.Uint32:
			return 10
		case types.Uint64:
			return 11
		case types.Uintptr:
			return 12
		}
	case KFloat:
		if ti.f32 {
			return 13
		}
		return 14
	case KComplex:
		return 16
	case KArray:
		return 17
	case KChan:
		return 18
	case KFunc:
		return 19
	case KIface:
		return 20
	case KMap:
		return 21
	case KPtr:
		return 22
	case KSlice:
		return 23
	case KString:
		return 24
	case KStruct:
		return 25
	case KUnsafePointer:
		return 26
	}
	return 0
}
