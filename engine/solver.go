package main

// One long-lived SMT solver process per worker, driven over a pipe.

import (
	"bufio"
	"fmt"
	"io"
	"os/exec"
	"strconv"
	"strings"
	"time"
)

type SatResult int

const (
	Unsat SatResult = iota
	Sat
	Unknown
)

func (r SatResult) String() string { return [...]string{"unsat", "sat", "unknown"}[r] }

type Solver struct {
	name    string
	cmd     *exec.Cmd
	in      io.WriteCloser
	out     *bufio.Reader
	level   int
	defined []map[uint32]bool // per level
	syms    []map[int]uint8
	Queries int
	Time    time.Duration
	Unknown int
	Errors  []string
	timeout int // ms
	log     io.Writer
}

func solverArgs(name string, timeoutMs int) (string, []string) {
	switch name {
	case "z3":
		return "z3", []string{"-in", fmt.Sprintf("-t:%d", timeoutMs)}
	case "z3-new":
		return "z3-new", []string{"-in", fmt.Sprintf("-t:%d", timeoutMs)}
	case "cvc5":
		return "cvc5", []string{"--incremental", "--lang=smt2", "--produce-models", fmt.Sprintf("--tlimit-per=%d", timeoutMs)}
	case "cvc5-int":
		return "cvc5", []string{"--incremental", "--lang=smt2", "--produce-models", "--solve-bv-as-int=sum", fmt.Sprintf("--tlimit-per=%d", timeoutMs)}
	}
	panic("unknown solver " + name)
}

func NewSolver(name string, timeoutMs int) (*Solver, error) {
	bin, args := solverArgs(name, timeoutMs)
	cmd := exec.Command(bin, args...)
	in, err := cmd.StdinPipe()
	if err != nil {
		return nil, err
	}
	out, err := cmd.StdoutPipe()
	if err != nil {
		return nil, err
	}
	cmd.Stderr = nil
	if err := cmd.Start(); err != nil {
		return nil, err
	}
	s := &Solver{name: name, cmd: cmd, in: in, out: bufio.NewReaderSize(out, 1<<16), timeout: timeoutMs}
	s.defined = []map[uint32]bool{{}}
	s.syms = []map[int]uint8{{}}
	if strings.HasPrefix(name, "cvc5") {
		s.send("(set-logic ALL)\n")
	}
	s.send("(set-option :produce-models true)\n")
	return s, nil
}

func (s *Solver) Close() {
	if s == nil || s.cmd == nil {
		return
	}
	s.in.Close()
	s.cmd.Process.Kill()
	s.cmd.Wait()
	s.cmd = nil
}

func (s *Solver) send(txt string) {
	if s.log != nil {
		io.WriteString(s.log, txt)
	}
	if _, err := io.WriteString(s.in, txt); err != nil {
		s.Errors = append(s.Errors, "write: "+err.Error())
	}
}

func (s *Solver) Push() {
	s.send("(push 1)\n")
	s.level++
	s.defined = append(s.defined, map[uint32]bool{})
	s.syms = append(s.syms, map[int]uint8{})
}

func (s *Solver) Pop() {
	s.send("(pop 1)\n")
	s.level--
	s.defined = s.defined[:len(s.defined)-1]
	s.syms = s.syms[:len(s.syms)-1]
}

// PopTo pops until the given level.
func (s *Solver) PopTo(level int) {
	for s.level > level {
		s.Pop()
	}
}

func (s *Solver) isDefined(id uint32) bool {
	for _, m := range s.defined {
		if m[id] {
			return true
		}
	}
	return false
}

// emitTerm writes the definitions needed for t at the current level.
func (s *Solver) emitTerm(t *Term) string {
	var sb strings.Builder
	// flatten level maps into a view: we pass the top map but check all
	top := s.defined[len(s.defined)-1]
	topSyms := s.syms[len(s.syms)-1]
	s.emitRec(t, &sb, top, topSyms)
	if sb.Len() > 0 {
		s.send(sb.String())
	}
	return t.ref()
}

func (s *Solver) symDeclared(id int) bool {
	for _, m := range s.syms {
		if _, ok := m[id]; ok {
			return true
		}
	}
	return false
}

func (s *Solver) emitRec(t *Term, sb *strings.Builder, top map[uint32]bool, topSyms map[int]uint8) {
	// iterative post-order to avoid deep recursion on long chains
	type fr struct {
		t     *Term
		stage int
	}
	stack := []fr{{t, 0}}
	for len(stack) > 0 {
		f := &stack[len(stack)-1]
		n := f.t
		if n.op == OpConst {
			stack = stack[:len(stack)-1]
			continue
		}
		if n.op == OpSym {
			if !s.symDeclared(int(n.c)) {
				topSyms[int(n.c)] = n.w
				fmt.Fprintf(sb, "(declare-const %s %s)\n", symName(int(n.c)), sortOf(n.w))
			}
			stack = stack[:len(stack)-1]
			continue
		}
		if f.stage == 0 {
			if s.isDefined(n.id) {
				stack = stack[:len(stack)-1]
				continue
			}
			f.stage = 1
			if n.z != nil {
				stack = append(stack, fr{n.z, 0})
			}
			if n.y != nil {
				stack = append(stack, fr{n.y, 0})
			}
			if n.x != nil {
				stack = append(stack, fr{n.x, 0})
			}
			continue
		}
		stack = stack[:len(stack)-1]
		if s.isDefined(n.id) {
			continue
		}
		top[n.id] = true
		n.emitDef(sb)
	}
}

func (s *Solver) Assert(t *Term) {
	if t.True() {
		return
	}
	r := s.emitTerm(t)
	s.send("(assert " + r + ")\n")
}

func (s *Solver) readLine() string {
	line, err := s.out.ReadString('\n')
	if err != nil {
		s.Errors = append(s.Errors, "read: "+err.Error())
		return "unknown"
	}
	return strings.TrimSpace(line)
}

func (s *Solver) Check() SatResult {
	t0 := time.Now()
	s.send("(check-sat)\n")
	s.Queries++
	for {
		line := s.readLine()
		switch {
		case line == "sat":
			s.Time += time.Since(t0)
			return Sat
		case line == "unsat":
			s.Time += time.Since(t0)
			return Unsat
		case line == "unknown" || line == "timeout":
			s.Time += time.Since(t0)
			s.Unknown++
			return Unknown
		case strings.HasPrefix(line, "(error"):
			s.Errors = append(s.Errors, line)
			// keep reading: z3 still prints an answer after an error for check-sat
			if len(s.Errors) > 50 {
				return Unknown
			}
		case line == "":
		default:
			s.Errors = append(s.Errors, "unexpected: "+line)
			if len(s.Errors) > 50 {
				return Unknown
			}
		}
	}
}

// CheckWith checks satisfiability of the current assertions plus extra.
func (s *Solver) CheckWith(extra *Term) SatResult {
	if extra.True() {
		return s.Check()
	}
	if extra.False() {
		return Unsat
	}
	s.Push()
	s.Assert(extra)
	r := s.Check()
	s.Pop()
	return r
}

// readSexp reads one balanced s-expression from the solver.
func (s *Solver) readSexp() string {
	var sb strings.Builder
	depth := 0
	started := false
	for {
		c, err := s.out.ReadByte()
		if err != nil {
			s.Errors = append(s.Errors, "read: "+err.Error())
			return sb.String()
		}
		if !started {
			if c == ' ' || c == '\n' || c == '\r' || c == '\t' {
				continue
			}
			started = true
			if c != '(' {
				// atom
				sb.WriteByte(c)
				rest, _ := s.out.ReadString('\n')
				sb.WriteString(strings.TrimSpace(rest))
				return sb.String()
			}
		}
		sb.WriteByte(c)
		if c == '(' {
			depth++
		} else if c == ')' {
			depth--
			if depth == 0 {
				return sb.String()
			}
		}
	}
}

// Values returns the model values of the given symbols (after a sat Check).
func (s *Solver) Values(syms map[int]uint8) (map[int]uint64, error) {
	res := map[int]uint64{}
	var ids []int
	for id := range syms {
		if s.symDeclared(id) {
			ids = append(ids, id)
		} else {
			res[id] = 0
		}
	}
	if len(ids) == 0 {
		return res, nil
	}
	var sb strings.Builder
	sb.WriteString("(get-value (")
	for _, id := range ids {
		sb.WriteString(symName(id))
		sb.WriteByte(' ')
	}
	sb.WriteString("))\n")
	s.send(sb.String())
	out := s.readSexp()
	if strings.HasPrefix(out, "(error") {
		s.Errors = append(s.Errors, out)
		return nil, fmt.Errorf("get-value: %s", out)
	}
	// parse ((s1 #x00) (s2 true) ...)
	toks := strings.FieldsFunc(out, func(r rune) bool { return r == '(' || r == ')' || r == ' ' || r == '\n' || r == '\t' || r == '\r' })
	for i := 0; i+1 < len(toks); i += 2 {
		name, val := toks[i], toks[i+1]
		if !strings.HasPrefix(name, "s") {
			return nil, fmt.Errorf("get-value: cannot parse %q", out)
		}
		id, err := strconv.Atoi(name[1:])
		if err != nil {
			return nil, fmt.Errorf("get-value: cannot parse %q", out)
		}
		var v uint64
		switch {
		case val == "true":
			v = 1
		case val == "false":
			v = 0
		case strings.HasPrefix(val, "#x"):
			v, err = strconv.ParseUint(val[2:], 16, 64)
		case strings.HasPrefix(val, "#b"):
			v, err = strconv.ParseUint(val[2:], 2, 64)
		case val == "_": // (_ bv10 32)
			if i+3 < len(toks) && strings.HasPrefix(toks[i+2], "bv") {
				v, err = strconv.ParseUint(toks[i+2][2:], 10, 64)
				i += 2
			} else {
				err = fmt.Errorf("bad literal")
			}
		default:
			err = fmt.Errorf("bad literal %q", val)
		}
		if err != nil {
			return nil, fmt.Errorf("get-value: cannot parse %q: %v", out, err)
		}
		res[id] = v
	}
	return res, nil
}
