package main

// One long-lived SMT solver process per worker, driven over a pipe.

import (
	"os"
	"bufio"
	"fmt"
	"io"
	"os/exec"
	"strconv"
	"strings"
	"time"
)

type SatResult int

const (
	Unsat SatResult = iota
	Sat
	Unknown
)

func (r SatResult) String() string { return [...]string{"unsat", "sat", "unknown"}[r] }

type Solver struct {
	name    string
	cmd     *exec.Cmd
	in      io.WriteCloser
	out     *bufio.Reader
	level   int
	defined []map[uint32]bool // per level
	syms    []map[int]uint8
	Queries int
	Time    time.Duration
	Unknown int
	Errors  []string
	timeout int // ms
	log     io.Writer
	Note    string
	SymW    func(id int) uint8
}

func solverArgs(name string, timeoutMs int) (string, []string) {
	switch name {
	case "z3":
		return "z3", []string{"-in", fmt.Sprintf("-t:%d", timeoutMs)}
	case "z3-new":
		return "z3-new", []string{"-in", fmt.Sprintf("-t:%d", timeoutMs)}
	case "cvc5":
		return "cvc5", []string{"--incremental", "--lang=smt2", "--produce-models", fmt.Sprintf("--tlimit-per=%d", timeoutMs)}
	case "cvc5-int":
		return "cvc5", []string{"--incremental", "--lang=smt2", "--produce-models", "--solve-bv-as-int=sum", fmt.Sprintf("--tlimit-per=%d", timeoutMs)}
	}
	panic("unknown solver " + name)
}

func NewSolver(name string, timeoutMs int) (*Solver, error) {
	bin, args := solverArgs(name, timeoutMs)
	cmd := exec.Command(bin, args...)
	in, err := cmd.StdinPipe()
	if err != nil {
		return nil, err
	}
	out, err := cmd.StdoutPipe()
	if err != nil {
		return nil, err
	}
	cmd.Stderr = nil
	if err := cmd.Start(); err != nil {
		return nil, err
	}
	s := &Solver{name: name, cmd: cmd, in: in, out: bufio.NewReaderSize(out, 1<<16), timeout: timeoutMs}
	if f := os.Getenv("GOSX_SMTLOG"); f != "" {
		s.log, _ = os.Create(fmt.Sprintf("%s.%d", f, cmd.Process.Pid))
	}
	s.defined = []map[uint32]bool{{}}
	s.syms = []map[int]uint8{{}}
	if strings.HasPrefix(name, "cvc5") {
		s.send("(set-logic ALL)\n")
	}
	s.send("(set-option :produce-models true)\n")
	return s, nil
}

func (s *Solver) Close() {
	if s == nil || s.cmd == nil {
		return
	}
	s.in.Close()
	s.cmd.Process.Kill()
	s.cmd.Wait()
	s.cmd = nil
}

func (s *Solver) send(txt string) {
	if s.log != nil {
		io.WriteString(s.log, txt)
	}
	if _, err := io.WriteString(s.in, txt); err != nil {
		s.Errors = append(s.Errors, "write: "+err.Error())
	}
}

func (s *Solver) logAnswer(a string) {
	if s.log != nil {
		io.WriteString(s.log, "; answer: "+a+"\n")
	}
}

func (s *Solver) Push() {
	s.send("(push 1)\n")
	s.level++
	s.defined = append(s.defined, map[uint32]bool{})
	s.syms = append(s.syms, map[int]uint8{})
}

func (s *Solver) Pop() {
	s.send("(pop 1)\n")
	s.level--
	s.defined = s.defined[:len(s.defined)-1]
	s.syms = s.syms[:len(s.syms)-1]
}

// PopTo pops until the given level.
func (s *Solver) PopTo(level int) {
	for s.level > level {
		s.Pop()
	}
}

func (s *Solver) isDefined(id uint32) bool {
	for _, m := range s.defined {
		if m[id] {
			return true
		}
	}
	return false
}

// emitTerm writes the definitions needed for t at the current level.
func (s *Solver) emitTerm(t *Term) string {
	var sb strings.Builder
	// flatten level maps into a view: we pass the top map but check all
	top := s.defined[len(s.defined)-1]
	topSyms := s.syms[len(s.syms)-1]
	s.emitRec(t, &sb, top, topSyms)
	if sb.Len() > 0 {
		s.send(sb.String())
	}
	return t.ref()
}

func (s *Solver) symDeclared(id int) bool {
	for _, m := range s.syms {
		if _, ok := m[id]; ok {
			return true
		}
	}
	return false
}

func (s *Solver) emitRec(t *Term, sb *strings.Builder, top map[uint32]bool, topSyms map[int]uint8) {
	// iterative post-order to avoid deep recursion on long chains
	type fr struct {
		t     *Term
		stage int
	}
	stack := []fr{{t, 0}}
	for len(stack) > 0 {
		f := &stack[len(stack)-1]
		n := f.t
		if n.op == OpConst {
			stack = stack[:len(stack)-1]
			continue
		}
		if n.op == OpSym {
			if !s.symDeclared(int(n.c)) {
				topSyms[int(n.c)] = n.w
				fmt.Fprintf(sb, "(declare-const %s %s)\n", symName(int(n.c)), sortOf(n.w))
			}
			stack = stack[:len(stack)-1]
			continue
		}
		if f.stage == 0 {
			if s.isDefined(n.id) {
				stack = stack[:len(stack)-1]
				continue
			}
			if n.sv >= 0 && (n.size >= 4 || n.op == OpTbl) && s.SymW != nil && s.SymW(int(n.sv)) == 8 {
				// a function of one byte: emit its value table compactly instead of the expression
				if !s.symDeclared(int(n.sv)) {
					topSyms[int(n.sv)] = 8
					fmt.Fprintf(sb, "(declare-const %s %s)\n", symName(int(n.sv)), sortOf(8))
				}
				top[n.id] = true
				emitCompact(sb, n)
				stack = stack[:len(stack)-1]
				continue
			}
			f.stage = 1
			if n.z != nil {
				stack = append(stack, fr{n.z, 0})
			}
			if n.y != nil {
				stack = append(stack, fr{n.y, 0})
			}
			if n.x != nil {
				stack = append(stack, fr{n.x, 0})
			}
			continue
		}
		stack = stack[:len(stack)-1]
		if s.isDefined(n.id) {
			continue
		}
		top[n.id] = true
		n.emitDef(sb)
	}
}

func (s *Solver) Assert(t *Term) {
	if t.True() {
		return
	}
	r := s.emitTerm(t)
	s.send("(assert " + r + ")\n")
}

func (s *Solver) readLine() string {
	line, err := s.out.ReadString('\n')
	if err != nil {
		s.Errors = append(s.Errors, "read: "+err.Error())
		return "unknown"
	}
	return strings.TrimSpace(line)
}

func (s *Solver) Check() SatResult {
	t0 := time.Now()
	defer func() {
		if d := time.Since(t0); d > 500*time.Millisecond && slowLog {
			fmt.Fprintf(os.Stderr, "slow query %.1fs: %s\n", d.Seconds(), s.Note)
		}
	}()
	s.send("(check-sat)\n")
	s.Queries++
	for {
		line := s.readLine()
		switch {
		case line == "sat":
			s.Time += time.Since(t0)
			s.logAnswer("sat")
			return Sat
		case line == "unsat":
			s.Time += time.Since(t0)
			s.logAnswer("unsat")
			return Unsat
		case line == "unknown" || line == "timeout":
			s.Time += time.Since(t0)
			s.Unknown++
			s.logAnswer("unknown")
			return Unknown
		case strings.HasPrefix(line, "(error"):
			s.Errors = append(s.Errors, line)
			// keep reading: z3 still prints an answer after an error for check-sat
			if len(s.Errors) > 50 {
				return Unknown
			}
		case line == "":
		default:
			s.Errors = append(s.Errors, "unexpected: "+line)
			if len(s.Errors) > 50 {
				return Unknown
			}
		}
	}
}

// CheckWith checks satisfiability of the current assertions plus extra.
func (s *Solver) CheckWith(extra *Term) SatResult {
	if extra.True() {
		return s.Check()
	}
	if extra.False() {
		return Unsat
	}
	s.Push()
	s.Assert(extra)
	r := s.Check()
	s.Pop()
	return r
}

// readSexp reads one balanced s-expression from the solver.
func (s *Solver) readSexp() string {
	var sb strings.Builder
	depth := 0
	started := false
	for {
		c, err := s.out.ReadByte()
		if err != nil {
			s.Errors = append(s.Errors, "read: "+err.Error())
			return sb.String()
		}
		if !started {
			if c == ' ' || c == '\n' || c == '\r' || c == '\t' {
				continue
			}
			started = true
			if c != '(' {
				// atom
				sb.WriteByte(c)
				rest, _ := s.out.ReadString('\n')
				sb.WriteString(strings.TrimSpace(rest))
				return sb.String()
			}
		}
		sb.WriteByte(c)
		if c == '(' {
			depth++
		} else if c == ')' {
			depth--
			if depth == 0 {
				return sb.String()
			}
		}
	}
}

// Values returns the model values of the given symbols (after a sat Check).
func (s *Solver) Values(syms map[int]uint8) (map[int]uint64, error) {
	res := map[int]uint64{}
	var ids []int
	for id := range syms {
		if s.symDeclared(id) {
			ids = append(ids, id)
		} else {
			res[id] = 0
		}
	}
	if len(ids) == 0 {
		return res, nil
	}
	var sb strings.Builder
	sb.WriteString("(get-value (")
	for _, id := range ids {
		sb.WriteString(symName(id))
		sb.WriteByte(' ')
	}
	sb.WriteString("))\n")
	s.send(sb.String())
	out := s.readSexp()
	if strings.HasPrefix(out, "(error") {
		s.Errors = append(s.Errors, out)
		return nil, fmt.Errorf("get-value: %s", out)
	}
	// parse ((s1 #x00) (s2 true) ...)
	toks := strings.FieldsFunc(out, func(r rune) bool { return r == '(' || r == ')' || r == ' ' || r == '\n' || r == '\t' || r == '\r' })
	for i := 0; i+1 < len(toks); i += 2 {
		name, val := toks[i], toks[i+1]
		if !strings.HasPrefix(name, "s") {
			return nil, fmt.Errorf("get-value: cannot parse %q", out)
		}
		id, err := strconv.Atoi(name[1:])
		if err != nil {
			return nil, fmt.Errorf("get-value: cannot parse %q", out)
		}
		var v uint64
		switch {
		case val == "true":
			v = 1
		case val == "false":
			v = 0
		case strings.HasPrefix(val, "#x"):
			v, err = strconv.ParseUint(val[2:], 16, 64)
		case strings.HasPrefix(val, "#b"):
			v, err = strconv.ParseUint(val[2:], 2, 64)
		case val == "_": // (_ bv10 32)
			if i+3 < len(toks) && strings.HasPrefix(toks[i+2], "bv") {
				v, err = strconv.ParseUint(toks[i+2][2:], 10, 64)
				i += 2
			} else {
				err = fmt.Errorf("bad literal")
			}
		default:
			err = fmt.Errorf("bad literal %q", val)
		}
		if err != nil {
			return nil, fmt.Errorf("get-value: cannot parse %q: %v", out, err)
		}
		res[id] = v
	}
	return res, nil
}

var slowLog = os.Getenv("GOSX_SLOWLOG") != ""

// emitCompact defines n (a term over a single 8-bit symbol) by its value table: a disjunction of
// input ranges for booleans, a chain of range tests with constant or input+delta pieces otherwise.
func emitCompact(sb *strings.Builder, n *Term) {
	var vals [256]uint64
	env := &evalEnv{}
	for b := 0; b < 256; b++ {
		env.gen = newEvalGen()
		bb := uint64(b)
		env.get = func(int, uint8) uint64 { return bb }
		vals[b] = n.eval(env)
	}
	sym := symName(int(n.sv))
	fmt.Fprintf(sb, "(define-fun t%d () %s ", n.id, sortOf(n.w))
	if n.w == 0 {
		var parts []string
		for b := 0; b < 256; {
			if vals[b] == 0 {
				b++
				continue
			}
			e := b
			for e+1 < 256 && vals[e+1] != 0 {
				e++
			}
			switch {
			case b == 0 && e == 255:
				parts = append(parts, "true")
			case b == e:
				parts = append(parts, fmt.Sprintf("(= %s %s)", sym, constLit(8, uint64(b))))
			case b == 0:
				parts = append(parts, fmt.Sprintf("(bvule %s %s)", sym, constLit(8, uint64(e))))
			case e == 255:
				parts = append(parts, fmt.Sprintf("(bvule %s %s)", constLit(8, uint64(b)), sym))
			default:
				parts = append(parts, fmt.Sprintf("(and (bvule %s %s) (bvule %s %s))", constLit(8, uint64(b)), sym, sym, constLit(8, uint64(e))))
			}
			b = e + 1
		}
		switch len(parts) {
		case 0:
			sb.WriteString("false")
		case 1:
			sb.WriteString(parts[0])
		default:
			sb.WriteString("(or " + strings.Join(parts, " ") + ")")
		}
		sb.WriteString(")\n")
		return
	}
	// bit-vector valued: runs that are constant or input+delta
	type run struct {
		hi    int
		konst bool
		v     uint64
	}
	m := mask(n.w)
	var runs []run
	for b := 0; b < 256; {
		e := b
		for e+1 < 256 && vals[e+1] == vals[b] {
			e++
		}
		if e > b {
			runs = append(runs, run{hi: e, konst: true, v: vals[b]})
			b = e + 1
			continue
		}
		d := (vals[b] - uint64(b)) & m
		for e+1 < 256 && (vals[e+1]-uint64(e+1))&m == d {
			e++
		}
		if e > b {
			runs = append(runs, run{hi: e, konst: false, v: d})
		} else {
			runs = append(runs, run{hi: e, konst: true, v: vals[b]})
		}
		b = e + 1
	}
	ext := sym
	if n.w > 8 {
		ext = fmt.Sprintf("((_ zero_extend %d) %s)", n.w-8, sym)
	}
	piece := func(r run) string {
		if r.konst {
			return constLit(n.w, r.v)
		}
		if r.v == 0 {
			return ext
		}
		return fmt.Sprintf("(bvadd %s %s)", ext, constLit(n.w, r.v))
	}
	for i, r := range runs {
		if i == len(runs)-1 {
			sb.WriteString(piece(r))
		} else {
			fmt.Fprintf(sb, "(ite (bvule %s %s) %s ", sym, constLit(8, uint64(r.hi)), piece(r))
		}
	}
	sb.WriteString(strings.Repeat(")", len(runs)-1))
	sb.WriteString(")\n")
}
