package main

import (
	"fmt"
	"go/token"
	"os"
	"path/filepath"
	"sort"
	"strings"

	"golang.org/x/tools/go/packages"
	"golang.org/x/tools/go/ssa"
	"golang.org/x/tools/go/ssa/ssautil"
)

const mainPkgPath = "github.com/go-ap/activitypub"

// packages whose init functions are interpreted
var interpInit = map[string]bool{
	mainPkgPath:                        true,
	"github.com/valyala/fastjson":      true,
	"github.com/valyala/fastjson/fastfloat": true,
	"git.sr.ht/~mariusor/go-xsd-duration":   true,
	"strings": true, "bytes": true, "unicode": true, "unicode/utf8": true, "unicode/utf16": true,
	"strconv": true, "sort": true, "slices": true, "errors": true, "math": true, "math/bits": true,
	"net/url": true, "path/filepath": true, "path": true, "time": true, "fmt": true, "io": true,
	"encoding/json": false, "internal/stringslite": true, "internal/filepathlite": true, "internal/bytealg": true,
	"internal/itoa": true, "cmp": true, "internal/oserror": true, "io/fs": true, "encoding": true,
	"encoding/base64": true, "encoding/binary": true, "unsafe": true, "sync": true, "sync/atomic": true,
	"internal/fmtsort": true,
}

// LoadProgram loads repo (with overlay files injected into the main package) and builds SSA.
func LoadProgram(repo string, overlay map[string][]byte) (*Program, *ssa.Package, error) {
	fset := token.NewFileSet()
	cfg := &packages.Config{
		Mode:    packages.LoadAllSyntax,
		Dir:     repo,
		Fset:    fset,
		Overlay: overlay,
		Env:     append(os.Environ(), "GOFLAGS=-mod=mod", "GOPROXY=off", "GOSUMDB=off", "GOTOOLCHAIN=local", "CGO_ENABLED=0"),
		Tests:   false,
	}
	pkgs, err := packages.Load(cfg, ".")
	if err != nil {
		return nil, nil, err
	}
	var errs []string
	packages.Visit(pkgs, nil, func(p *packages.Package) {
		for _, e := range p.Errors {
			errs = append(errs, e.Error())
		}
	})
	if len(errs) > 0 {
		return nil, nil, fmt.Errorf("load errors:\n%s", strings.Join(errs, "\n"))
	}
	prog, spkgs := ssautil.AllPackages(pkgs, ssa.InstantiateGenerics)
	prog.Build()
	var mainPkg *ssa.Package
	for _, sp := range spkgs {
		if sp != nil && sp.Pkg.Path() == mainPkgPath {
			mainPkg = sp
		}
	}
	if mainPkg == nil {
		return nil, nil, fmt.Errorf("package %s not found", mainPkgPath)
	}
	p := &Program{prog: prog, tt: NewTypeTable(prog), cfuncs: map[*ssa.Function]*cfunc{}, fset: fset, interpPkg: interpInit}
	p.mainPkg = mainPkg
	return p, mainPkg, nil
}

// overlayFrom maps every *.go file in dir to <repo>/zz_vp_<name>.
// overlayFrom reads the harness sources. With a snapshot directory the files are copied there first and
// the copies are what the native replay compiles, so that a harness file edited while a check runs
// cannot make the symbolic run and its replay disagree.
func overlayFrom(repo, snapshot string, dirs ...string) (map[string][]byte, map[string]string, error) {
	ov := map[string][]byte{}
	real := map[string]string{}
	for di, dir := range dirs {
		ents, err := os.ReadDir(dir)
		if err != nil {
			return nil, nil, err
		}
		for _, e := range ents {
			if e.IsDir() || !strings.HasSuffix(e.Name(), ".go") {
				continue
			}
			data, err := os.ReadFile(filepath.Join(dir, e.Name()))
			if err != nil {
				return nil, nil, err
			}
			target := filepath.Join(repo, "zz_vp_"+e.Name())
			ov[target] = data
			real[target] = filepath.Join(dir, e.Name())
			if snapshot != "" {
				cp := filepath.Join(snapshot, fmt.Sprintf("h%d_%s", di, e.Name()))
				if err := os.WriteFile(cp, data, 0o644); err != nil {
					return nil, nil, err
				}
				real[target] = cp
			}
		}
	}
	return ov, real, nil
}

func findHarnesses(pkg *ssa.Package, prefix string) []*ssa.Function {
	var hs []*ssa.Function
	for name, m := range pkg.Members {
		if fn, ok := m.(*ssa.Function); ok && strings.HasPrefix(name, prefix) {
			hs = append(hs, fn)
		}
	}
	sort.Slice(hs, func(i, j int) bool { return hs[i].Name() < hs[j].Name() })
	return hs
}

// runInit interprets the package initialisers of the interpreted packages.
func (it *Interp) runInit() {
	it.inInit = true
	it.epoch = 0
	defer func() { it.inInit = false; it.epoch = 1 }()
	ps := &PathState{harness: "<init>", domains: map[int]*bset{}, entangled: map[int]bool{}, symW: map[int]uint8{}, vioSeen: map[string]bool{}, sites: map[*mergeSite]*siteStat{}, masks: map[*Term]bset{}}
	it.ps = ps
	defer func() { it.ps = nil }()
	initFn := it.p.mainPkg.Func("init")
	func() {
		defer func() {
			if r := recover(); r != nil {
				switch r := r.(type) {
				case *pathAbort:
					fmt.Fprintf(os.Stderr, "init aborted: %s %s\n", r.kind, r.detail)
				case *goPanic:
					fmt.Fprintf(os.Stderr, "init panicked: %s @ %s\n", r.msg, r.pos)
				default:
					panic(r)
				}
			}
		}()
		it.call(nil, FuncV{fn: initFn}, nil)
	}()
	it.initSteps = it.steps
	it.steps = 0
}
