package activitypub

import "time"

// C08 — typed views (On*/To*) are field-faithful and never reach outside the value.
// (The per-site layout obligations are decided statically by the engine; this is the dynamic part.)

// vpBoxEq compares two boxed field values of the same kind structurally.
func vpBoxEq(a, b any) bool {
	switch x := a.(type) {
	case nil:
		return b == nil
	case IRI:
		y, ok := b.(IRI)
		return ok && x == y
	case ActivityVocabularyType:
		y, ok := b.(ActivityVocabularyType)
		return ok && x == y
	case MimeType:
		y, ok := b.(MimeType)
		return ok && x == y
	case NaturalLanguageValues:
		y, ok := b.(NaturalLanguageValues)
		return ok && vpEq_NLV(x, y)
	case ItemCollection:
		y, ok := b.(ItemCollection)
		return ok && vpEq_Items(x, y)
	case time.Time:
		y, ok := b.(time.Time)
		return ok && x.Equal(y)
	case time.Duration:
		y, ok := b.(time.Duration)
		return ok && x == y
	case Source:
		y, ok := b.(Source)
		return ok && vpEq_Source(x, y)
	case uint:
		y, ok := b.(uint)
		return ok && x == y
	case int64:
		y, ok := b.(int64)
		return ok && x == y
	case float64:
		y, ok := b.(float64)
		return ok && x == y
	case string:
		y, ok := b.(string)
		return ok && x == y
	case bool:
		y, ok := b.(bool)
		return ok && x == y
	case LangRef:
		y, ok := b.(LangRef)
		return ok && x == y
	case PublicKey:
		y, ok := b.(PublicKey)
		return ok && vpEq_PublicKey(x, y)
	case *Endpoints:
		y, ok := b.(*Endpoints)
		return ok && x == y
	case Item:
		y, ok := b.(Item)
		// identity: the very same item value (pointer / IRI) must be seen through the view
		return ok && x == y
	}
	return false
}

func vpTermOf(fi vpFieldInfo) string {
	if fi.Term == "orderedItems" {
		return "items"
	}
	return fi.Term
}

// vpViewLaws: v is a view of x; every property the two types share reads the same, and a write
// through the view is seen by the original (pointer sources).
func vpViewLaws(cell string, x, v Item, pointerSource bool) {
	ti, vi := -1, -1
	for i := range vpTypeNames {
		if vpSameGoType(vpNew(i), x) {
			ti = i
		}
		if vpSameGoType(vpNew(i), v) {
			vi = i
		}
	}
	vpAssert("view/known-types/"+cell, ti >= 0 && vi >= 0)
	if ti < 0 || vi < 0 {
		return
	}
	xf, vf := vpFieldsOf(ti), vpFieldsOf(vi)
	shared := 0
	for j, fv := range vf {
		for i, fx := range xf {
			if vpTermOf(fv) != vpTermOf(fx) || fv.Term == "" {
				continue
			}
			shared++
			vpAssert("view/reads-same/"+cell+"/"+fv.Name, vpBoxEq(vpFieldBox(v, j), vpFieldBox(x, i)))
		}
	}
	vpAssert("view/shares-fields/"+cell, shared >= 10)
	if pointerSource {
		for j, fv := range vf {
			if vpShapes(fv.Kind) == 0 || j%4 != 1 {
				continue
			}
			for i, fx := range xf {
				if vpTermOf(fv) != vpTermOf(fx) || fv.Term == "" {
					continue
				}
				vpSetField(v, j, 0, 'w')
				vpAssert("view/write-seen-by-original/"+cell+"/"+fv.Name, vpBoxEq(vpFieldBox(v, j), vpFieldBox(x, i)))
			}
		}
	}
}

// vpPopulated builds a value of type ti with every field set to a distinct value.
func vpPopulated(ti int) Item {
	x := vpNew(ti)
	fields := vpFieldsOf(ti)
	vpSetField(x, 0, 0, 'i')
	vpSymLeaves = false
	for f := 2; f < len(fields); f++ {
		if vpShapes(fields[f].Kind) > 0 {
			vpSetField(x, f, 0, byte('a'+f%24))
		}
	}
	vpSymLeaves = true
	return x
}

func vpValueOf(x Item) Item {
	switch p := x.(type) {
	case *Object:
		return *p
	case *Actor:
		return *p
	case *Activity:
		return *p
	case *IntransitiveActivity:
		return *p
	case *Question:
		return *p
	case *Collection:
		return *p
	case *CollectionPage:
		return *p
	case *OrderedCollection:
		return *p
	case *OrderedCollectionPage:
		return *p
	case *Place:
		return *p
	case *Profile:
		return *p
	case *Relationship:
		return *p
	case *Tombstone:
		return *p
	case *Link:
		return *p
	}
	return x
}

type vpViewFn struct {
	name string
	to   func(Item) (Item, error)
}

var vpViewFns = []vpViewFn{
	{"ToObject", func(it Item) (Item, error) { v, err := ToObject(it); return v, err }},
	{"ToIntransitiveActivity", func(it Item) (Item, error) { v, err := ToIntransitiveActivity(it); return v, err }},
	{"ToActivity", func(it Item) (Item, error) { v, err := ToActivity(it); return v, err }},
	{"ToQuestion", func(it Item) (Item, error) { v, err := ToQuestion(it); return v, err }},
	{"ToActor", func(it Item) (Item, error) { v, err := ToActor(it); return v, err }},
	{"ToCollection", func(it Item) (Item, error) { v, err := ToCollection(it); return v, err }},
	{"ToCollectionPage", func(it Item) (Item, error) { v, err := ToCollectionPage(it); return v, err }},
	{"ToOrderedCollection", func(it Item) (Item, error) { v, err := ToOrderedCollection(it); return v, err }},
	{"ToOrderedCollectionPage", func(it Item) (Item, error) { v, err := ToOrderedCollectionPage(it); return v, err }},
	{"ToPlace", func(it Item) (Item, error) { v, err := ToPlace(it); return v, err }},
	{"ToProfile", func(it Item) (Item, error) { v, err := ToProfile(it); return v, err }},
	{"ToRelationship", func(it Item) (Item, error) { v, err := ToRelationship(it); return v, err }},
	{"ToTombstone", func(it Item) (Item, error) { v, err := ToTombstone(it); return v, err }},
}

// every conversion helper x every source type, pointer and value forms:
// either refused with an error, or a faithful view
func vpH_C08_views() {
	fi := vpChoice(len(vpViewFns))
	ti := vpChoice(len(vpTypeNames) - 1) // all but Link
	byValue := vpBool()
	x := vpPopulated(ti)
	src := x
	if byValue {
		src = vpValueOf(x)
	}
	cell := vpViewFns[fi].name + "/" + vpTypeNames[ti]
	if byValue {
		cell += "/value"
	}
	var v Item
	var err error
	p := vpMayPanic(func() { v, err = vpViewFns[fi].to(src) })
	vpAssert("view/no-panic/"+cell, !p)
	if !p && err == nil && !IsNil(v) {
		vpViewLaws(cell, x, v, !byValue)
	}
	vpReach("end")
}

// the On* helpers hand the same views to their callbacks: every On* helper x every source type
func vpH_C08_on() {
	ti := vpChoice(len(vpTypeNames) - 1)
	x := vpPopulated(ti)
	cell := vpTypeNames[ti]
	called := 0
	var err error
	k := vpChoice(14)
	p := vpMayPanic(func() {
		switch k {
		case 0:
			err = OnObject(x, func(o *Object) error { called++; vpViewLaws("OnObject/"+cell, x, o, true); return nil })
		case 1:
			err = OnIntransitiveActivity(x, func(o *IntransitiveActivity) error {
				called++
				vpViewLaws("OnIntransitiveActivity/"+cell, x, o, true)
				return nil
			})
		case 2:
			err = OnCollection(x, func(o *Collection) error { called++; vpViewLaws("OnCollection/"+cell, x, o, true); return nil })
		case 3:
			err = OnOrderedCollection(x, func(o *OrderedCollection) error {
				called++
				vpViewLaws("OnOrderedCollection/"+cell, x, o, true)
				return nil
			})
		case 4:
			err = OnCollectionPage(x, func(o *CollectionPage) error { called++; vpViewLaws("OnCollectionPage/"+cell, x, o, true); return nil })
		case 5:
			err = OnOrderedCollectionPage(x, func(o *OrderedCollectionPage) error {
				called++
				vpViewLaws("OnOrderedCollectionPage/"+cell, x, o, true)
				return nil
			})
		case 6:
			err = OnActivity(x, func(o *Activity) error { called++; vpViewLaws("OnActivity/"+cell, x, o, true); return nil })
		case 7:
			err = OnQuestion(x, func(o *Question) error { called++; vpViewLaws("OnQuestion/"+cell, x, o, true); return nil })
		case 8:
			err = OnActor(x, func(o *Actor) error { called++; vpViewLaws("OnActor/"+cell, x, o, true); return nil })
		case 9:
			err = OnPlace(x, func(o *Place) error { called++; vpViewLaws("OnPlace/"+cell, x, o, true); return nil })
		case 10:
			err = OnProfile(x, func(o *Profile) error { called++; vpViewLaws("OnProfile/"+cell, x, o, true); return nil })
		case 11:
			err = OnRelationship(x, func(o *Relationship) error { called++; vpViewLaws("OnRelationship/"+cell, x, o, true); return nil })
		case 12:
			err = OnTombstone(x, func(o *Tombstone) error { called++; vpViewLaws("OnTombstone/"+cell, x, o, true); return nil })
		default:
			// the collection-interface helper: what the callback receives is a view of x too
			err = OnCollectionIntf(x, func(c CollectionInterface) error {
				called++
				if it, ok := c.(Item); ok && !IsNil(it) {
					vpViewLaws("OnCollectionIntf/"+cell, x, it, true)
				} else {
					vpAssert("OnCollectionIntf/callback-gets-an-item/"+cell, false)
				}
				return nil
			})
		}
	})
	vpAssert("on/no-panic/"+cell, !p)
	vpAssert("on/called-at-most-once/"+cell, called <= 1)
	vpAssert("on/refused-or-called/"+cell, p || err != nil || called == 1)
	vpReach("end")
}

// values stored through a view keep behaving like ordinary interface values
// (type assertion, type switch and == on the original's field)
func vpH_C08_store_through_view() {
	act := &Activity{ID: vpMkIRI('i'), Type: LikeType}
	id := vpMkIRI('a')
	_ = OnIntransitiveActivity(act, func(in *IntransitiveActivity) error {
		in.Actor = id
		in.Target = &Object{ID: id}
		return nil
	})
	got, isIRI := act.Actor.(IRI)
	vpAssert("store/actor-type-assertion", isIRI && got == id)
	switch act.Actor.(type) {
	case IRI:
	default:
		vpAssert("store/actor-type-switch", false)
	}
	vpAssert("store/actor-comparable", act.Actor == Item(id))
	_, isObj := act.Target.(*Object)
	vpAssert("store/target-type-assertion", isObj)
	q := &Question{ID: vpMkIRI('q'), Type: QuestionType}
	_ = OnIntransitiveActivity(q, func(in *IntransitiveActivity) error { in.Actor = id; return nil })
	_, isIRI = q.Actor.(IRI)
	vpAssert("store/question-actor-type-assertion", isIRI)
	vpReach("end")
}

// the item-list view of a collection (ToItemCollection / OnItemCollection on a pointer): it is the
// collection's own list - a member appended or removed through it is seen by the collection
func vpH_C08_item_list_view() {
	var x Item
	a, b := vpMkIRI('a'), vpMkIRI('b')
	pre := ItemCollection{a, &Object{ID: b, Type: NoteType}}
	kind := vpChoice(5)
	switch kind {
	case 0:
		x = &Collection{ID: "https://h.ex/c", Type: CollectionType, Items: pre}
	case 1:
		x = &CollectionPage{ID: "https://h.ex/c", Type: CollectionPageType, Items: pre}
	case 2:
		x = &OrderedCollection{ID: "https://h.ex/c", Type: OrderedCollectionType, OrderedItems: pre}
	case 3:
		x = &OrderedCollectionPage{ID: "https://h.ex/c", Type: OrderedCollectionPageType, OrderedItems: pre}
	default:
		x = &pre
	}
	cell := []string{"Collection", "CollectionPage", "OrderedCollection", "OrderedCollectionPage", "ItemCollection"}[kind]
	col, _ := x.(CollectionInterface)
	extra := IRI("https://h.ex/extra")
	viaOn := vpBool()
	write := func(v *ItemCollection) {
		if vpBool() {
			_ = v.Append(extra)
		} else {
			v.Remove(a)
		}
	}
	before := int(col.Count())
	if viaOn {
		err := OnItemCollection(x, func(v *ItemCollection) error { write(v); return nil })
		vpAssert("item-list-view/on-accepts/"+cell, err == nil)
	} else {
		v, err := ToItemCollection(x)
		vpAssert("item-list-view/to-accepts/"+cell, err == nil && v != nil)
		if v != nil {
			write(v)
		}
	}
	after := int(col.Count())
	vpAssert("item-list-view/write-seen-by-original/"+cell, after != before && (col.Contains(extra) || !col.Contains(a)))
	vpReach("end")
}

func vpW_C08_twin() {
	x := vpPopulated(1)
	_, _ = ToObject(x)
	vpAssert("twin", false)
}
