package activitypub

import "time"

// C09 — item equality is reflexive, nil-correct and identity-sensitive.

func vpTypeIndex(name string) int {
	for i, n := range vpTypeNames {
		if n == name {
			return i
		}
	}
	return -1
}

// every (type, field, shape) cell: a value with one populated field equals itself
func vpC09Refl(ti int) {
	fields := vpFieldsOf(ti)
	f := vpChoice(len(fields))
	n := vpShapes(fields[f].Kind)
	if n == 0 {
		vpReach("end")
		return
	}
	shape := vpChoice(n)
	x := vpNew(ti)
	vpSetField(x, 0, 0, 'i') // id
	if f != 0 {
		vpSetField(x, f, shape, 'a')
	}
	cell := vpTypeNames[ti] + "." + fields[f].Name + "/" + string([]byte{'0' + byte(shape/10), '0' + byte(shape%10)})
	vpAssert("reflexive/"+cell, ItemsEqual(x, x))
	c := vpCloneItem(x)
	vpAssert("copy-equal/"+cell, ItemsEqual(x, c) && ItemsEqual(c, x))
	// the value (non-pointer) form of the same value: equal to itself and to the pointer form, in both orders
	if v := vpValueOf(x); v != x {
		vpAssert("value-form-reflexive/"+cell, ItemsEqual(v, v))
		vpAssert("value-form-equals-pointer-form/"+cell, ItemsEqual(v, x) && ItemsEqual(x, v))
	}
	vpReach("end")
}

func vpH_C09_refl_Object()   { vpC09Refl(vpTypeIndex("Object")) }
func vpH_C09_refl_Actor()    { vpC09Refl(vpTypeIndex("Actor")) }
func vpH_C09_refl_Activity() { vpC09Refl(vpTypeIndex("Activity")) }
func vpH_C09_refl_Link()     { vpC09Refl(vpTypeIndex("Link")) }

// id and type only, every type (the value forms of the less common types are dispatched separately)
func vpH_C09_refl_bare_all() {
	ti := vpChoice(len(vpTypeNames))
	x := vpNew(ti)
	vpSetField(x, 0, 0, 'i')
	cell := vpTypeNames[ti]
	vpAssert("bare/reflexive/"+cell, ItemsEqual(x, x))
	if v := vpValueOf(x); v != x {
		vpAssert("bare/value-form-reflexive/"+cell, ItemsEqual(v, v))
		vpAssert("bare/value-form-equals-pointer-form/"+cell, ItemsEqual(v, x) && ItemsEqual(x, v))
	}
	vpReach("end")
}
func vpT_C09_refl_all() { vpC09Refl(vpChoice(len(vpTypeNames))) }

// items that are not vocabulary structs
func vpH_C09_refl_misc() {
	var x Item
	switch vpChoice(6) {
	case 0:
		x = vpMkIRI('a')
	case 1:
		x = IRIs{vpMkIRI('a'), vpMkIRI('b')}
	case 2:
		x = ItemCollection{vpMkIRI('a'), vpMkIRI('b')}
	case 3:
		x = ItemCollection{&Object{ID: vpMkIRI('a'), Type: NoteType}, &Object{Type: NoteType, Name: vpMk_NLV(0, 'b')}}
	case 4:
		x = Object{ID: vpMkIRI('a'), Type: NoteType, Name: vpMk_NLV(2, 'a')}
	default:
		x = &Object{Type: NoteType, Name: vpMk_NLV(0, 'a')} // no id
	}
	vpAssert("reflexive-misc", ItemsEqual(x, x))
	vpReach("end")
}

func vpNilLike(k int) Item {
	switch k {
	case 0:
		return nil
	case 1:
		return (*Object)(nil)
	case 2:
		return (*Actor)(nil)
	case 3:
		return (*Activity)(nil)
	case 4:
		return IRI("")
	case 5:
		return NilIRI
	case 6:
		return ItemCollection(nil)
	case 7:
		return (*Link)(nil)
	case 8:
		return (*Place)(nil)
	default:
		return (*OrderedCollectionPage)(nil)
	}
}

const vpNilKinds = 10

func vpH_C09_nil() {
	a := vpNilLike(vpChoice(vpNilKinds))
	b := vpNilLike(vpChoice(vpNilKinds))
	vpAssert("nil-equals-nil", ItemsEqual(a, b))
	var x Item
	switch vpChoice(4) {
	case 0:
		x = vpMkIRI('a')
	case 1:
		x = &Object{ID: vpMkIRI('a'), Type: NoteType}
	case 2:
		x = &Object{Type: NoteType, Name: vpMk_NLV(0, 'a')}
	default:
		x = ItemCollection{vpMkIRI('a')}
	}
	vpAssert("nil-unequal-nonnil", !ItemsEqual(a, x))
	vpAssert("nonnil-unequal-nil", !ItemsEqual(x, a))
	vpReach("end")
}

// ids differing in host, path or query are never equal
// vpC09IDPair: two ids that name different things, differing in one component
func vpC09IDPair() (IRI, IRI) {
	var ida, idb IRI
	c1, c2 := vpAlnum(), vpAlnum()
	vpAssume(c1 != c2)
	s1, s2 := string([]byte{c1}), string([]byte{c2})
	switch vpChoice(11) {
	case 8: // another URL carried in the query or in the path: what is left of it still counts
		ida = IRI("https://" + s1 + ".ex/proxy?url=https://r.ex/1.png")
		idb = IRI("https://" + s2 + ".ex/proxy?url=https://r.ex/1.png")
	case 9:
		ida = IRI("https://h.ex/" + s1 + "/https://r.ex/1.png")
		idb = IRI("https://h.ex/" + s2 + "/https://r.ex/1.png")
	case 10:
		ida = IRI("https://h.ex/web?a=" + s1 + "&to=http://r.ex/")
		idb = IRI("https://h.ex/web?a=" + s2 + "&to=http://r.ex/")
	case 6: // only the port differs
		ida = IRI("https://h.ex:80" + s1 + "/p")
		idb = IRI("https://h.ex:80" + s2 + "/p")
	case 7: // an explicit port against none
		ida = IRI("https://h.ex:8" + s1 + "/p")
		idb = IRI("https://h.ex/p")
	case 3: // a repeated query key: the values form a multiset
		ida = IRI("https://h.ex/p?k=" + s1 + "&k=" + s1)
		idb = IRI("https://h.ex/p?k=" + s1 + "&k=" + s2)
	case 4:
		ida = IRI("https://h.ex/p?k=" + s1 + "&k=" + s2 + "&k=" + s2)
		idb = IRI("https://h.ex/p?k=" + s2 + "&k=" + s1 + "&k=" + s1)
	case 5:
		ida = IRI("https://h.ex/p?k=" + s1 + "&j=" + s2)
		idb = IRI("https://h.ex/p?k=" + s2 + "&j=" + s1)
	case 0:
		ida = IRI("https://" + string([]byte{c1}) + ".ex/p")
		idb = IRI("https://" + string([]byte{c2}) + ".ex/p")
	case 1:
		ida = IRI("https://h.ex/" + string([]byte{c1}))
		idb = IRI("https://h.ex/" + string([]byte{c2}))
	default:
		ida = IRI("https://h.ex/p?k=" + string([]byte{c1}))
		idb = IRI("https://h.ex/p?k=" + string([]byte{c2}))
	}
	return ida, idb
}

func vpH_C09_iddiff() {
	ida, idb := vpC09IDPair()
	ti := vpChoice(3)
	a, b := vpNew(ti), vpNew(ti)
	vpSetID(a, ida)
	vpSetID(b, idb)
	vpAssert("id-differs", !ItemsEqual(a, b) && !ItemsEqual(b, a))
	vpReach("end")
}

// the same pairs as plain IRIs: compared directly, as members of lists, and as the one property in
// which two otherwise equal objects differ
func vpH_C09_iri_pairs() {
	ida, idb := vpC09IDPair()
	switch vpChoice(5) {
	case 0:
		vpAssert("iri-pairs/direct", !ItemsEqual(ida, idb) && !ItemsEqual(idb, ida))
	case 1:
		vpAssert("iri-pairs/in-item-lists", !ItemsEqual(ItemCollection{ida}, ItemCollection{idb}) && !ItemsEqual(ItemCollection{idb, ida}, ItemCollection{ida, ida}))
	case 2:
		vpAssert("iri-pairs/in-iri-lists", !ItemsEqual(IRIs{ida}, IRIs{idb}) && !ItemsEqual(IRIs{idb}, IRIs{ida}))
	case 3:
		a := &Object{ID: "https://h.ex/o", Type: NoteType, URL: ida, AttributedTo: ida}
		b := &Object{ID: "https://h.ex/o", Type: NoteType, URL: idb, AttributedTo: ida}
		c := &Object{ID: "https://h.ex/o", Type: NoteType, URL: ida, AttributedTo: idb}
		vpAssert("iri-pairs/url-of-objects", !ItemsEqual(a, b) && !ItemsEqual(b, a))
		vpAssert("iri-pairs/attributedTo-of-objects", !ItemsEqual(a, c) && !ItemsEqual(c, a))
	default:
		a := &Activity{ID: "https://h.ex/o", Type: LikeType, Object: ida, Actor: ida}
		b := &Activity{ID: "https://h.ex/o", Type: LikeType, Object: idb, Actor: ida}
		c := &Activity{ID: "https://h.ex/o", Type: LikeType, Object: ida, Actor: idb}
		vpAssert("iri-pairs/object-of-activities", !ItemsEqual(a, b) && !ItemsEqual(b, a))
		vpAssert("iri-pairs/actor-of-activities", !ItemsEqual(a, c) && !ItemsEqual(c, a))
	}
	vpReach("end")
}

func vpSetID(it Item, id IRI) {
	_ = OnObject(it, func(o *Object) error {
		o.ID = id
		return nil
	})
}

func vpH_C09_typediff() {
	a := &Object{ID: vpMkIRI('a')}
	b := &Object{ID: a.ID}
	types := []ActivityVocabularyType{NoteType, ArticleType, ImageType, "note", ""}
	i, j := vpChoice(len(types)), vpChoice(len(types))
	a.Type, b.Type = types[i], types[j]
	same := i == j || (i == 0 && j == 3) || (i == 3 && j == 0)
	if !same {
		vpAssert("type-differs", !ItemsEqual(a, b) && !ItemsEqual(b, a))
	}
	vpReach("end")
}

// changing one property of the object core makes the copy unequal
func vpC09Chg(ti int, only []string) {
	fields := vpFieldsOf(ti)
	f := 1 + vpChoice(len(fields)-1)
	name := fields[f].Name
	if only != nil {
		ok := false
		for _, n := range only {
			if n == name {
				ok = true
			}
		}
		if !ok {
			vpReach("end")
			return
		}
	} else if name == "Type" || name == "MediaType" || name == "Source" {
		vpReach("end")
		return
	}
	n := vpShapes(fields[f].Kind)
	if n == 0 {
		vpReach("end")
		return
	}
	shape := vpChoice(n)
	x := vpNew(ti)
	vpSetField(x, 0, 0, 'i')
	y := vpCloneItem(x)
	vpSetField(x, f, shape, 'a')
	vpSetField(y, f, shape, 'k') // ids inside the two values differ in their tag character
	// the two values of the property are different (decided structurally, independent of the library)
	probe := vpCloneItem(y)
	differs := false
	vpEvents(false)
	differs = !vpSameField(x, probe, f)
	vpEvents(true)
	vpAssume(differs)
	cell := vpTypeNames[ti] + "." + name + "/" + string([]byte{'0' + byte(shape/10), '0' + byte(shape%10)})
	vpAssert("changed-unequal/"+cell, !ItemsEqual(x, y))
	vpAssert("changed-unequal-rev/"+cell, !ItemsEqual(y, x))
	vpReach("end")
}

// vpSameField: are field f of a and b structurally equal? (all other fields are equal by construction)
func vpSameField(a, b Item, f int) bool { return vpEqItem(a, b) }

// a text that differs from the original in nothing but the case of one letter is a different text
func vpH_C09_text_case() {
	c := vpLower()
	lo := Content{'P', c, 'l'}
	up := Content{'P', c - 'a' + 'A', 'l'}
	mk := func(t Content, form int) NaturalLanguageValues {
		switch form {
		case 0:
			return NaturalLanguageValues{{Ref: NilLangRef, Value: t}}
		case 1:
			return NaturalLanguageValues{{Ref: "en", Value: t}}
		}
		return NaturalLanguageValues{{Ref: "en", Value: Content("same")}, {Ref: "fr", Value: t}}
	}
	form := vpChoice(3)
	var x, y Item
	cell := ""
	switch vpChoice(6) {
	case 0:
		x, y, cell = &Object{ID: "https://h.ex/o", Type: NoteType, Name: mk(lo, form)}, &Object{ID: "https://h.ex/o", Type: NoteType, Name: mk(up, form)}, "Object.Name"
	case 1:
		x, y, cell = &Object{ID: "https://h.ex/o", Type: NoteType, Summary: mk(lo, form)}, &Object{ID: "https://h.ex/o", Type: NoteType, Summary: mk(up, form)}, "Object.Summary"
	case 2:
		x, y, cell = &Activity{ID: "https://h.ex/o", Type: LikeType, Content: mk(lo, form)}, &Activity{ID: "https://h.ex/o", Type: LikeType, Content: mk(up, form)}, "Activity.Content"
	case 3:
		x, y, cell = &Actor{ID: "https://h.ex/o", Type: PersonType, PreferredUsername: mk(lo, form)}, &Actor{ID: "https://h.ex/o", Type: PersonType, PreferredUsername: mk(up, form)}, "Actor.PreferredUsername"
	case 4:
		x, y, cell = &Link{ID: "https://h.ex/o", Type: MentionType, Href: "https://h.ex/l", Name: mk(lo, form)}, &Link{ID: "https://h.ex/o", Type: MentionType, Href: "https://h.ex/l", Name: mk(up, form)}, "Link.Name"
	default: // nested: the object of an activity
		x = &Activity{ID: "https://h.ex/a", Type: CreateType, Object: &Object{ID: "https://h.ex/o", Type: NoteType, Content: mk(lo, form)}}
		y = &Activity{ID: "https://h.ex/a", Type: CreateType, Object: &Object{ID: "https://h.ex/o", Type: NoteType, Content: mk(up, form)}}
		cell = "Activity.Object.Content"
	}
	vpAssert("text-case/unequal/"+cell, !ItemsEqual(x, y) && !ItemsEqual(y, x))
	vpAssert("text-case/texts-unequal/"+cell, !mk(lo, form).Equals(mk(up, form)) && !lo.Equals(up))
	vpReach("end")
}

func vpH_C09_chg_Object() { vpC09Chg(vpTypeIndex("Object"), nil) }
func vpH_C09_chg_Activity() {
	vpC09Chg(vpTypeIndex("Activity"), []string{"Actor", "Object", "Target", "Result", "Origin", "Instrument"})
}

// the same with every other property populated (and equal on both sides): a change in one property is
// detected whatever else the value holds
func vpC09ChgPopulated(ti int, only []string) {
	fields := vpFieldsOf(ti)
	f := 2 + vpChoice(len(fields)-2)
	name := fields[f].Name
	if only != nil {
		ok := false
		for _, n := range only {
			if n == name {
				ok = true
			}
		}
		if !ok {
			vpReach("end")
			return
		}
	} else if name == "MediaType" || name == "Source" {
		vpReach("end")
		return
	}
	n := vpShapes(fields[f].Kind)
	if n == 0 {
		vpReach("end")
		return
	}
	x := vpPopulated(ti)
	y := vpCloneItem(x)
	vpSymLeaves = false
	vpSetField(y, f, (n+1)%n, 'Z')
	vpSymLeaves = true
	vpEvents(false)
	differs := !vpEqItem(x, y)
	vpEvents(true)
	if !differs {
		vpReach("end")
		return
	}
	cell := vpTypeNames[ti] + "." + name
	vpAssert("populated/changed-unequal/"+cell, !ItemsEqual(x, y))
	vpAssert("populated/changed-unequal-rev/"+cell, !ItemsEqual(y, x))
	vpAssert("populated/reflexive/"+cell, ItemsEqual(x, x) && ItemsEqual(y, y))
	vpReach("end")
}

func vpH_C09_chg_populated_Object() { vpC09ChgPopulated(vpTypeIndex("Object"), nil) }

// the object core of every other type, fully populated (actor boxes, collection members, place
// numbers... all set and equal): a changed core property still makes the copy unequal
var vpC09Core = []string{"Name", "Summary", "Content", "Attachment", "AttributedTo", "Audience", "Context", "Generator", "Icon", "Image", "InReplyTo", "Location", "Preview", "Published", "Updated", "StartTime", "EndTime", "Duration", "Replies", "Tag", "URL", "To", "Bto", "CC", "BCC", "Likes", "Shares"}

func vpH_C09_chg_populated_Actor() { vpC09ChgPopulated(vpTypeIndex("Actor"), vpC09Core) }
func vpH_C09_chg_populated_others() {
	vpC09ChgPopulated(3+vpChoice(len(vpTypeNames)-4), vpC09Core) // all but Object, Actor, Activity and Link
}

// a different id or type on a fully populated value of any type
func vpH_C09_chg_populated_id() {
	ti := vpChoice(len(vpTypeNames) - 1)
	x := vpPopulated(ti)
	y := vpCloneItem(x)
	if vpBool() {
		vpSetField(y, 0, 0, 'j')
	} else {
		_ = OnObject(y, func(o *Object) error { o.Type = VideoType; return nil })
	}
	cell := vpTypeNames[ti]
	vpAssert("populated/id-or-type-changed-unequal/"+cell, !ItemsEqual(x, y) && !ItemsEqual(y, x))
	vpReach("end")
}
func vpH_C09_chg_populated_Activity() {
	vpC09ChgPopulated(vpTypeIndex("Activity"), []string{"Actor", "Object", "Target", "Result", "Origin", "Instrument"})
}

// a changed text is detected also when one side repeats an entry
func vpH_C09_chg_text_dups() {
	t1 := LangRef([]byte{vpRange('a', 'b'), 'x'})
	t2 := LangRef([]byte{vpRange('a', 'b'), 'x'})
	v1, v2 := Content{vpRange('0', '1')}, Content{vpRange('0', '1')}
	vpAssume(t1 != t2 || v1[0] != v2[0])
	dup := NaturalLanguageValues{{Ref: t1, Value: v1}, {Ref: t1, Value: v1}}
	two := NaturalLanguageValues{{Ref: t1, Value: v1}, {Ref: t2, Value: v2}}
	var x, y Item
	switch vpChoice(4) {
	case 0:
		x, y = &Object{ID: "https://h.ex/i", Type: NoteType, Name: dup}, &Object{ID: "https://h.ex/i", Type: NoteType, Name: two}
	case 1:
		x, y = &Object{ID: "https://h.ex/i", Type: NoteType, Summary: dup}, &Object{ID: "https://h.ex/i", Type: NoteType, Summary: two}
	case 2:
		x, y = &Object{ID: "https://h.ex/i", Type: NoteType, Content: dup}, &Object{ID: "https://h.ex/i", Type: NoteType, Content: two}
	default:
		x, y = &Link{Type: MentionType, Href: "https://h.ex/l", Name: dup}, &Link{Type: MentionType, Href: "https://h.ex/l", Name: two}
	}
	vpAssert("text-dups/changed-unequal", !ItemsEqual(x, y))
	vpAssert("text-dups/changed-unequal-rev", !ItemsEqual(y, x))
	vpAssert("text-dups/reflexive", ItemsEqual(x, x) && ItemsEqual(y, y))
	vpReach("end")
}

// item lists with a repeated member: a repeated member does not stand for a different one
func vpH_C09_chg_list_dups() {
	a, b := vpMkIRI('a'), vpMkIRI('b')
	vpAssume(a != b)
	var l1, l2 ItemCollection
	if vpBool() {
		l1, l2 = ItemCollection{a, a}, ItemCollection{a, b}
	} else {
		l1, l2 = ItemCollection{a, a, b}, ItemCollection{b, a, b}
	}
	if vpBool() { // members as objects rather than IRIs
		for i := range l1 {
			l1[i] = &Object{ID: l1[i].GetLink(), Type: NoteType}
		}
		for i := range l2 {
			l2[i] = &Object{ID: l2[i].GetLink(), Type: NoteType}
		}
	}
	var x, y Item
	switch vpChoice(4) {
	case 0:
		x, y = l1, l2
	case 1:
		x, y = &Object{ID: "https://h.ex/i", Type: NoteType, To: l1}, &Object{ID: "https://h.ex/i", Type: NoteType, To: l2}
	case 2:
		x, y = &OrderedCollection{ID: "https://h.ex/i", Type: OrderedCollectionType, OrderedItems: l1}, &OrderedCollection{ID: "https://h.ex/i", Type: OrderedCollectionType, OrderedItems: l2}
	default:
		x, y = l1.IRIs(), l2.IRIs()
	}
	vpAssert("list-dups/changed-unequal", !ItemsEqual(x, y))
	vpAssert("list-dups/changed-unequal-rev", !ItemsEqual(y, x))
	vpAssert("list-dups/reflexive", ItemsEqual(x, x) && ItemsEqual(y, y))
	vpReach("end")
}

// an activity whose type name is spelled in another letter case is still compared as an activity:
// a different actor, object or target makes it unequal
func vpH_C09_chg_activity_type_case() {
	typ := []ActivityVocabularyType{"create", "CREATE", "Create", "lIKE"}[vpChoice(4)]
	x := &Activity{ID: "https://h.ex/i", Type: typ, Actor: vpMkIRI('a'), Object: vpMkIRI('o'), Target: vpMkIRI('t')}
	y := &Activity{ID: "https://h.ex/i", Type: typ, Actor: vpMkIRI('a'), Object: vpMkIRI('o'), Target: vpMkIRI('t')}
	vpAssume(x.Actor == y.Actor && x.Object == y.Object && x.Target == y.Target)
	vpAssert("type-case/equal-copies", ItemsEqual(x, y) && ItemsEqual(y, x))
	switch vpChoice(3) {
	case 0:
		y.Actor = IRI("https://h.ex/zz")
	case 1:
		y.Object = IRI("https://h.ex/zz")
	default:
		y.Target = IRI("https://h.ex/zz")
	}
	vpAssert("type-case/changed-unequal", !ItemsEqual(x, y) && !ItemsEqual(y, x))
	vpReach("end")
}

// the object embedded in an activity gains a property on the copy: comparing the original with the
// copy (the copy as the argument, whose set properties are the ones compared) says unequal
func vpH_C09_chg_embedded_gains_property() {
	id := vpMkIRI('o')
	mk := func(extra bool) *Object {
		o := &Object{ID: id, Type: NoteType, Name: NaturalLanguageValues{{Ref: NilLangRef, Value: Content("n")}}}
		if extra {
			o.Summary = NaturalLanguageValues{{Ref: NilLangRef, Value: Content("s")}}
		}
		return o
	}
	var x, y Item
	switch vpChoice(4) {
	case 0:
		x, y = &Activity{ID: "https://h.ex/i", Type: CreateType, Object: mk(false)}, &Activity{ID: "https://h.ex/i", Type: CreateType, Object: mk(true)}
	case 1:
		x, y = &Activity{ID: "https://h.ex/i", Type: LikeType, Actor: mk(false), Object: IRI("https://h.ex/z")}, &Activity{ID: "https://h.ex/i", Type: LikeType, Actor: mk(true), Object: IRI("https://h.ex/z")}
	case 2:
		x, y = &Activity{ID: "https://h.ex/i", Type: AddType, Target: mk(false)}, &Activity{ID: "https://h.ex/i", Type: AddType, Target: mk(true)}
	default:
		x, y = &Object{ID: "https://h.ex/i", Type: NoteType, Icon: mk(false)}, &Object{ID: "https://h.ex/i", Type: NoteType, Icon: mk(true)}
	}
	vpAssert("gains-property/original-vs-copy-unequal", !ItemsEqual(x, y))
	vpAssert("gains-property/reflexive", ItemsEqual(x, x) && ItemsEqual(y, y))
	vpReach("end")
}

func vpH_C09_chg_id() {
	ti := vpChoice(3)
	x := vpNew(ti)
	vpSetField(x, 0, 0, 'i')
	y := vpCloneItem(x)
	vpSetField(y, 0, 0, 'j')
	vpAssert("id-changed-unequal", !ItemsEqual(x, y) && !ItemsEqual(y, x))
	vpReach("end")
}

func vpW_C09_twin() {
	x := &Object{ID: vpMkIRI('a')}
	_ = ItemsEqual(x, x)
	vpAssert("twin", false)
}

// durations and instants that differ below the second (seed C09-17: durations compared at "wire
// precision"): the changed copy is unequal whatever the sub-second parts are. The whole seconds are one of
// a few fixed values, the nanoseconds are symbolic (mode 0) or taken from a table of boundary values
// (mode 1); the holder is an object, an actor or an activity.
func vpH_C09_chg_subsecond() {
	mk := func(d time.Duration, p time.Time) Item {
		switch vpChoice(3) {
		case 0:
			return &Object{ID: "https://h.ex/i", Type: NoteType, Duration: d, Published: p}
		case 1:
			return &Actor{ID: "https://h.ex/i", Type: PersonType, Duration: d, Published: p}
		default:
			return &Activity{ID: "https://h.ex/i", Type: CreateType, Duration: d, Published: p, Object: IRI("https://h.ex/o")}
		}
	}
	secs := []int64{0, 1, 90, -1, 86400}[vpChoice(5)]
	var n1, n2 int64
	if vpBool() {
		n1, n2 = vpInt(0, 999999999), vpInt(0, 999999999)
	} else {
		tbl := []int64{0, 1, 250000000, 500000000, 999999999}
		n1, n2 = tbl[vpChoice(len(tbl))], tbl[vpChoice(len(tbl))]
	}
	vpAssume(n1 != n2)
	base := time.Unix(1700000000, 0).UTC()
	if vpBool() {
		d1, d2 := time.Duration(secs*1000000000+n1), time.Duration(secs*1000000000+n2)
		if secs < 0 {
			d1, d2 = time.Duration(secs*1000000000-n1), time.Duration(secs*1000000000-n2)
		}
		vpAssume(d1 != 0 && d2 != 0)
		x, y := mk(d1, base), mk(d2, base)
		vpAssert("subsecond/duration/changed-unequal", !ItemsEqual(x, y))
		vpAssert("subsecond/duration/changed-unequal-rev", !ItemsEqual(y, x))
		vpAssert("subsecond/duration/reflexive", ItemsEqual(x, x) && ItemsEqual(y, y))
	} else {
		p1, p2 := time.Unix(1700000000+secs, n1).UTC(), time.Unix(1700000000+secs, n2).UTC()
		x, y := mk(time.Second, p1), mk(time.Second, p2)
		vpAssert("subsecond/published/changed-unequal", !ItemsEqual(x, y))
		vpAssert("subsecond/published/changed-unequal-rev", !ItemsEqual(y, x))
		vpAssert("subsecond/published/reflexive", ItemsEqual(x, x) && ItemsEqual(y, y))
	}
	vpReach("end")
}
