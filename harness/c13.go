package activitypub

// C13 — collections are insertion-ordered sets under Append / Contains / Remove.

const vpC13Kinds = 6

func vpC13Name(kind int) string {
	return []string{"ItemCollection", "IRIs", "Collection", "OrderedCollection", "CollectionPage", "OrderedCollectionPage"}[kind]
}

// the declared totalItems of a collection is whatever its sender wrote: arbitrary, and unrelated
// to the number of members held (Count is the number of members)
func vpC13New(kind int) CollectionInterface {
	total := uint(0)
	if kind >= 2 {
		total = uint(vpInt(0, 9))
	}
	switch kind {
	case 0:
		return &ItemCollection{}
	case 1:
		return &IRIs{}
	case 2:
		return &Collection{ID: "https://h.ex/col", Type: CollectionType, TotalItems: total}
	case 3:
		return &OrderedCollection{ID: "https://h.ex/col", Type: OrderedCollectionType, TotalItems: total}
	case 4:
		return &CollectionPage{ID: "https://h.ex/col", Type: CollectionPageType, TotalItems: total}
	default:
		return &OrderedCollectionPage{ID: "https://h.ex/col", Type: OrderedCollectionPageType, TotalItems: total}
	}
}

// vpC13Item builds an item with the given id in one of four shapes.
func vpC13Item(shape int, id IRI) Item {
	switch shape {
	case 0:
		return id
	case 1:
		return &Object{ID: id, Type: NoteType}
	case 2:
		return &Actor{ID: id, Type: PersonType}
	case 3:
		return &Activity{ID: id, Type: LikeType}
	}
	// shapes 4..: members with every property populated (membership goes through the library's
	// equality, which must hold a fully populated value equal to itself)
	var x Item
	switch shape {
	case 4:
		x = vpPopulated(vpTypeIndex("Actor"))
	case 5:
		x = vpPopulated(vpTypeIndex("Object"))
	case 6:
		x = vpPopulated(vpTypeIndex("Activity"))
	case 7:
		x = vpPopulated(vpTypeIndex("Question"))
	case 8:
		x = vpPopulated(vpTypeIndex("OrderedCollection"))
	case 9:
		x = vpPopulated(vpTypeIndex("Place"))
	case 10: // a member whose own lists name an addressee twice
		z := IRI("https://h.ex/zz")
		x = &Object{Type: NoteType, To: ItemCollection{z, z}, Tag: ItemCollection{&Object{ID: z, Type: NoteType}, z}}
	default: // a member that carries links whose type is not one of the vocabulary's two link types, or none
		x = &Object{Type: NoteType, Tag: ItemCollection{&Link{Type: "Hashtag", Href: "https://h.ex/tags/x", Name: NaturalLanguageValues{{Ref: NilLangRef, Value: Content("#x")}}}},
			URL: &Link{Href: "https://h.ex/page", MediaType: "text/html"}, Icon: &Link{ID: "https://h.ex/l", Href: "https://h.ex/i.png"}}
	}
	vpSetID(x, id)
	return x
}

// the component in which the ids of one pool differ: 0 path letter, 1 host letter, 2 port digit,
// 3 query value (everything else equal), 4-6 the opaque part of a urn, mailto or tag id, 7-9 one value of a
// repeated query key or of the second of two keys
var vpC13IDForm int

func vpC13ID(c byte) IRI {
	switch vpC13IDForm {
	case 1:
		return IRI("https://" + string([]byte{c}) + ".ex/x")
	case 2:
		return IRI("https://h.ex:80" + string([]byte{'0' + (c - 'a')}) + "/x")
	case 3:
		return IRI("https://h.ex/x?k=" + string([]byte{c}))
	case 4: // ids that are not locators: no host, the distinguishing part is opaque
		return IRI("urn:uuid:" + string([]byte{c}))
	case 5:
		return IRI("mailto:" + string([]byte{c}) + "@h.ex")
	case 6:
		return IRI("tag:h.ex,2020:" + string([]byte{c}))
	case 7: // a repeated query key: the later value differs (seed C13-18), the earlier one, or that of a second key
		return IRI("https://h.ex/x?k=a&k=" + string([]byte{c}))
	case 8:
		return IRI("https://h.ex/x?k=" + string([]byte{c}) + "&k=a")
	case 9:
		return IRI("https://h.ex/x?j=a&k=" + string([]byte{c}))
	}
	return IRI("https://h.ex/" + string([]byte{c}))
}

// vpSameItem: identity of pool items (the reference model's notion of "same item").
func vpSameItem(a, b Item) bool { return a == b }

// vpC13Agree compares the collection with the reference list ref (pool indices in insertion order).
func vpC13Agree(step string, kind int, col CollectionInterface, pool []Item, ref []int) {
	items := col.Collection()
	vpAssert(step+"/count", int(col.Count()) == len(ref))
	vpAssert(step+"/len", len(items) == len(ref))
	if len(items) != len(ref) {
		return
	}
	for i, k := range ref {
		if kind == 1 {
			// an IRI list holds the ids of the appended items
			vpAssert(step+"/order", items[i].GetLink() == pool[k].GetLink())
		} else {
			vpAssert(step+"/order", vpSameItem(items[i], pool[k]))
		}
	}
	for k := range pool {
		want := false
		for _, r := range ref {
			if r == k {
				want = true
			}
		}
		vpAssert(step+"/contains", col.Contains(pool[k]) == want)
	}
}

// vpC13Pool builds n items with pairwise distinct symbolic ids.
func vpC13Pool(n, kind, shapes int) []Item {
	pool := make([]Item, n)
	var ids []byte
	for i := range pool {
		c := vpRange('a', 'd')
		for _, o := range ids {
			vpAssume(o != c)
		}
		ids = append(ids, c)
		shape := 0
		if shapes > 0 {
			shape = vpChoice(shapes) // an IRI list is asked about, and given, items of every shape too: it holds their ids
		} else if kind != 1 {
			shape = 4 + vpChoice(-shapes) // negative: only the populated shapes
		}
		pool[i] = vpC13Item(shape, vpC13ID(c))
	}
	return pool
}

func vpRefRemove(ref []int, k int) []int {
	var out []int
	for _, r := range ref {
		if r != k {
			out = append(out, r)
		}
	}
	return out
}

func vpRefHas(ref []int, k int) bool {
	for _, r := range ref {
		if r == k {
			return true
		}
	}
	return false
}

func vpC13Op(kind int, col CollectionInterface, pool []Item, ref []int) []int {
	k := vpChoice(len(pool))
	nops := 3
	if vpC13Many {
		nops = 4
	}
	switch vpChoice(nops) {
	case 3: // one call with several items, some of them nil or already present: each one is treated on its own
		k2 := vpChoice(len(pool))
		err := col.Append(pool[k], nil, pool[k2], pool[k])
		vpAssert("append-many/err", err == nil)
		if !vpRefHas(ref, k) {
			ref = append(ref, k)
		}
		if !vpRefHas(ref, k2) {
			ref = append(ref, k2)
		}
	case 0:
		err := col.Append(pool[k])
		vpAssert("append/err", err == nil)
		if !vpRefHas(ref, k) {
			ref = append(ref, k)
		}
	case 1:
		vpAssert("contains/answer", col.Contains(pool[k]) == vpRefHas(ref, k))
	case 2:
		if kind == 1 {
			break // an IRI list has no in-place item-list view
		}
		view, err := ToItemCollection(col)
		vpAssert("remove/view", err == nil && view != nil)
		if view != nil {
			view.Remove(pool[k])
			ref = vpRefRemove(ref, k)
		}
	}
	return ref
}

// vpC13Many: the inductive-step harnesses also offer the several-items-in-one-call Append
var vpC13Many bool

// history from the empty collection
func vpC13Hist(kind, h, npool, shapes int) {
	col := vpC13New(kind)
	pool := vpC13Pool(npool, kind, shapes)
	var ref []int
	for s := 0; s < h; s++ {
		ref = vpC13Op(kind, col, pool, ref)
		vpC13Agree("after", kind, col, pool, ref)
	}
	vpReach("end")
}

// inductive step: arbitrary duplicate-free pre-state, one arbitrary operation
func vpC13Step(kind, maxPre, shapes int) {
	col := vpC13New(kind)
	npool := maxPre + 1
	pool := vpC13Pool(npool, kind, shapes)
	n := vpChoice(maxPre + 1)
	// pre-state: the first n pool items, installed directly (not through Append)
	var ref []int
	pre := make(ItemCollection, 0, n)
	for i := 0; i < n; i++ {
		pre = append(pre, pool[i])
		ref = append(ref, i)
	}
	switch c := col.(type) {
	case *ItemCollection:
		*c = pre
	case *IRIs:
		for _, it := range pre {
			*c = append(*c, it.GetLink())
		}
	case *Collection:
		c.Items = pre
	case *OrderedCollection:
		c.OrderedItems = pre
	case *CollectionPage:
		c.Items = pre
	case *OrderedCollectionPage:
		c.OrderedItems = pre
	}
	vpC13Agree("pre", kind, col, pool, ref)
	vpC13Many = true
	ref = vpC13Op(kind, col, pool, ref)
	vpC13Many = false
	vpC13Agree("post", kind, col, pool, ref)
	vpReach("end")
}

func vpH_C13_hist_items()      { vpC13Hist(0, 3, 2, 2) }
func vpH_C13_hist_iris()       { vpC13Hist(1, 3, 2, 3) }
func vpH_C13_hist_coll()       { vpC13Hist(2, 2, 2, 2) }
func vpH_C13_step_items()      { vpC13Step(0, 2, 2) }
func vpH_C13_step_iris()       { vpC13Step(1, 2, 3) }
func vpH_C13_step_coll()       { vpC13Step(2, 2, 2) }
func vpH_C13_step_ocoll()      { vpC13Step(3, 2, 2) }
func vpH_C13_step_page()       { vpC13Step(4, 2, 2) }
func vpH_C13_step_opage()      { vpC13Step(5, 2, 2) }
func vpH_C13_step_rich_items() { vpC13Step(0, 1, -8) }
func vpH_C13_step_rich_ocoll() { vpC13Step(3, 1, -8) }

// ids that differ only in host, only in port, only in a query value, or only in their opaque part
func vpH_C13_step_id_forms() {
	vpC13IDForm = 1 + vpChoice(9)
	kind := []int{0, 1, 3}[vpChoice(3)]
	vpC13Step(kind, 1, 2)
	vpC13IDForm = 0
}
func vpH_C13_step3_items() { vpC13Step(0, 3, 1) }
func vpH_C13_step3_coll()  { vpC13Step(3, 3, 1) }

func vpT_C13_hist4_items()  { vpC13Hist(0, 4, 3, 2) }
func vpT_C13_hist4_iris()   { vpC13Hist(1, 4, 3, 1) }
func vpT_C13_hist4_kinds()  { vpC13Hist(2+vpChoice(4), 4, 2, 4) }
func vpT_C13_step3_kinds()  { vpC13Step(vpChoice(vpC13Kinds), 3, 1) }
func vpT_C13_step3_shapes() { vpC13Step([]int{0, 3}[vpChoice(2)], 3, 2) }

func vpW_C13_twin() {
	vpC13Step(0, 1, 1)
	vpAssert("twin", false)
}
