package activitypub

import "time"

// C01 — JSON encode -> decode round trip preserves every vocabulary property.

func vpMarshalItem(it Item) ([]byte, error) {
	if m, ok := it.(interface{ MarshalJSON() ([]byte, error) }); ok {
		return m.MarshalJSON()
	}
	return nil, nil
}

// vpC01Normal applies the documented normal form to the value that was encoded:
// a lone language-tagged string returns untagged; a one-element list in a single-item property
// is that element. (Instants are generated as UTC whole seconds, empty stays absent.)
func vpC01Normal(x Item, ti, f int) {
	fi := vpFieldsOf(ti)[f]
	switch fi.Kind {
	case "NLV":
		_ = vpNormNLVField(x, fi.Name)
	case "Item":
		vpMapItemFields(x, func(name string, v Item) Item {
			if col, ok := v.(ItemCollection); ok && len(col) == 1 {
				return col[0]
			}
			return v
		})
	}
}

func vpUntag(n NaturalLanguageValues) NaturalLanguageValues {
	if len(n) == 1 {
		return NaturalLanguageValues{{Ref: NilLangRef, Value: n[0].Value}}
	}
	return n
}

func vpNormNLVField(x Item, name string) error {
	switch v := x.(type) {
	case *Link:
		v.Name = vpUntag(v.Name)
		return nil
	case *Actor:
		v.PreferredUsername = vpUntag(v.PreferredUsername)
	}
	return OnObject(x, func(o *Object) error {
		o.Name = vpUntag(o.Name)
		o.Summary = vpUntag(o.Summary)
		o.Content = vpUntag(o.Content)
		return nil
	})
}

func vpC01Cell(ti int) {
	fields := vpFieldsOf(ti)
	f := vpChoice(len(fields))
	n := vpShapes(fields[f].Kind)
	if n == 0 {
		vpReach("end")
		return
	}
	shape := vpChoice(n)
	x := vpNew(ti)
	vpSetField(x, 0, 0, 'i')
	if f != 0 {
		vpSetField(x, f, shape, 'a')
	}
	cell := vpTypeNames[ti] + "." + fields[f].Name + "/" + string([]byte{'0' + byte(shape/10), '0' + byte(shape%10)})
	b, err := vpMarshalItem(x)
	vpAssert("encode/no-error/"+cell, err == nil)
	vpAssert("encode/non-empty/"+cell, len(b) > 0)
	if len(b) == 0 {
		return
	}
	y, err := UnmarshalJSON(b)
	vpAssert("decode/no-error/"+cell, err == nil)
	vpAssert("decode/non-nil/"+cell, y != nil)
	if y == nil {
		return
	}
	want := vpCloneItem(x)
	vpC01Normal(want, ti, f)
	vpDiffItems("roundtrip/"+cell, want, y, nil)
	vpReach("end")
}

// texts with characters the codecs treat specially (literal backslash sequences, quotes, markup,
// line separators, texts that are JSON themselves), in every natural-language property of every type,
// as a single value and inside a two-language map
var vpC01Texts = []string{`C:\new\table`, `say "hi"`, `<p>a&amp;b</p>`, "line\nbreak", "sep\u2028arator", `{"a":1}`, `\\`, `\"`, "tab\there", `42`, "caf\u00e9 \U0001F600", "esc\x1b[0m", "ff\x0c bell\x07 us\x1f del\x7f nul\x00", "\x12"}

func vpH_C01_special_texts() {
	ti := vpChoice(len(vpTypeNames))
	fields := vpFieldsOf(ti)
	f := vpChoice(len(fields))
	if fields[f].Kind != "NLV" {
		vpReach("end")
		return
	}
	t := Content(vpC01Texts[vpChoice(len(vpC01Texts))])
	var n NaturalLanguageValues
	form := vpChoice(3)
	switch form {
	case 0:
		n = NaturalLanguageValues{{Ref: NilLangRef, Value: t}}
	case 1:
		n = NaturalLanguageValues{{Ref: "en", Value: t}, {Ref: "fr", Value: Content("autre")}}
	default:
		n = NaturalLanguageValues{{Ref: "en", Value: Content("other")}, {Ref: "fr", Value: t}}
	}
	x := vpNew(ti)
	vpSetField(x, 0, 0, 'i')
	vpSetNLV(x, f, n)
	cell := vpTypeNames[ti] + "." + fields[f].Name + "/form" + string([]byte{'0' + byte(form)})
	b, err := vpMarshalItem(x)
	vpAssert("texts/encode/"+cell, err == nil && len(b) > 0)
	if len(b) == 0 {
		return
	}
	y, err := UnmarshalJSON(b)
	vpAssert("texts/decode/"+cell, err == nil && y != nil)
	if y == nil {
		return
	}
	vpDiffItems("texts/roundtrip/"+cell, x, y, nil)
	vpReach("end")
}

// properties that are present but empty (an allocated empty list, an empty language list, an empty
// endpoints struct, an object that says nothing): the value itself is still written and comes back
// with everything else intact; the empty property is absent or empty afterwards
func vpC01Degenerate(codec int) {
	ti := vpChoice(len(vpTypeNames))
	fields := vpFieldsOf(ti)
	f := 2 + vpChoice(len(fields)-2)
	x := vpNew(ti)
	vpSetField(x, 0, 0, 'i')
	vpSetField(x, vpFieldIndex(ti, "Name"), 0, 'n')
	switch fields[f].Kind {
	case "Items":
		vpSetField(x, f, 16, 'a')
	case "NLV":
		if fields[f].Name == "Name" {
			vpReach("end")
			return
		}
		vpSetField(x, f, 5+vpChoice(4), 'a')
	case "Item":
		vpSetField(x, f, 11+vpChoice(3), 'a')
	default:
		vpReach("end")
		return
	}
	cell := vpTypeNames[ti] + "." + fields[f].Name
	var y Item
	var err error
	if codec == 0 {
		var b []byte
		b, err = vpMarshalItem(x)
		vpAssert("degenerate/json/encode/"+cell, err == nil && len(b) > 0)
		if len(b) == 0 {
			return
		}
		y, err = UnmarshalJSON(b)
	} else {
		var b []byte
		b, err = GobEncode(x)
		vpAssert("degenerate/gob/encode/"+cell, err == nil && len(b) > 0)
		if len(b) == 0 {
			return
		}
		y, err = GobDecode(b)
	}
	vpAssert("degenerate/decode/"+cell, err == nil && y != nil)
	if y == nil {
		return
	}
	name := fields[f].Name
	vpDiffItems("degenerate/others-intact/"+cell, x, y, func(n string) bool { return n == name })
	vpReach("end")
}

func vpH_C01_degenerate() { vpC01Degenerate(0) }

// durations with a sub-second part: whole object type only (the duration writer is shared)
func vpH_C01_subsecond_durations() {
	ds := []time.Duration{1500 * time.Millisecond, 500 * time.Millisecond, 1001 * time.Millisecond, 12345 * time.Millisecond}
	names := []string{"1500ms", "500ms", "1001ms", "12345ms"}
	k := vpChoice(len(ds))
	x := &Object{ID: vpMkIRI('i'), Type: VideoType, Duration: ds[k]}
	b, err := x.MarshalJSON()
	vpAssert("subsecond-duration/encodes/"+names[k], err == nil && len(b) > 0)
	y, err := UnmarshalJSON(b)
	vpAssert("subsecond-duration/decodes/"+names[k], err == nil && y != nil)
	if o, ok := y.(*Object); ok {
		vpAssert("subsecond-duration/same-value/"+names[k], o.Duration == ds[k])
	}
	vpReach("end")
}

// every type name of the vocabulary (not only the canonical one of each Go type) with one further
// property, top level and nested in an item position and in a list: the decoder's dispatch on names
func vpH_C01_every_name() {
	c := vpVocabConsts[vpChoice(len(vpVocabConsts))]
	spec, ok := vpSpec[c.Value]
	if !ok {
		vpReach("end")
		return
	}
	ti := vpTypeIndex(spec.goType)
	fields := vpFieldsOf(ti)
	f := 2 + vpChoice(len(fields)-2)
	if vpShapes(fields[f].Kind) == 0 {
		vpReach("end")
		return
	}
	x := vpNew(ti)
	if l, ok := x.(*Link); ok {
		l.Type = c.Value
	} else {
		_ = OnObject(x, func(o *Object) error { o.Type = c.Value; return nil })
	}
	vpSetField(x, 0, 0, 'i')
	vpSetField(x, f, 0, 'a')
	cell := string(c.Value) + "." + fields[f].Name
	want := vpCloneItem(x)
	vpC01Normal(want, ti, f)
	where := vpChoice(3)
	var enc Item = x
	switch where {
	case 1:
		enc = &Object{ID: "https://h.ex/outer", Type: NoteType, Icon: x}
		cell += "/nested"
	case 2:
		enc = &Object{ID: "https://h.ex/outer", Type: NoteType, Tag: ItemCollection{IRI("https://h.ex/first"), x}}
		cell += "/in-list"
	}
	b, err := vpMarshalItem(enc)
	vpAssert("every-name/encode/"+cell, err == nil && len(b) > 0)
	if len(b) == 0 {
		return
	}
	y, err := UnmarshalJSON(b)
	vpAssert("every-name/decode/"+cell, err == nil && y != nil)
	if y == nil {
		return
	}
	if where > 0 {
		o, ok := y.(*Object)
		vpAssert("every-name/outer/"+cell, ok && o != nil)
		if !ok || o == nil {
			return
		}
		if where == 1 {
			y = o.Icon
		} else {
			vpAssert("every-name/list-keeps-both/"+cell, len(o.Tag) == 2)
			if len(o.Tag) != 2 {
				return
			}
			y = o.Tag[1]
		}
		vpAssert("every-name/present/"+cell, y != nil)
		if y == nil {
			return
		}
	}
	vpDiffItems("every-name/roundtrip/"+cell, want, y, nil)
	vpReach("end")
}

// items held by value (Place{...} rather than &Place{...}) in a single-item property and in a list:
// they are written like their pointer forms and come back as those
func vpH_C01_value_forms() {
	ti := vpChoice(3) // Object, Actor, Activity as the holder
	vi := vpChoice(len(vpTypeNames))
	inner := vpNew(vi)
	vpSetField(inner, 0, 0, 'j')
	if vi != vpTypeIndex("Link") {
		vpSetField(inner, vpFieldIndex(vi, "Name"), 0, 'n')
	}
	val := vpValueOf(inner)
	x := vpNew(ti)
	vpSetField(x, 0, 0, 'i')
	inList := vpBool()
	_ = OnObject(x, func(o *Object) error {
		if inList {
			o.Tag = ItemCollection{IRI("https://h.ex/first"), val}
		} else {
			o.Location = val
		}
		return nil
	})
	cell := vpTypeNames[vi]
	if inList {
		cell += "/in-list"
	}
	b, err := vpMarshalItem(x)
	vpAssert("value-form/encode/"+cell, err == nil && len(b) > 0)
	if len(b) == 0 {
		return
	}
	y, err := UnmarshalJSON(b)
	vpAssert("value-form/decode/"+cell, err == nil && y != nil)
	if y == nil {
		return
	}
	var got Item
	_ = OnObject(y, func(o *Object) error {
		if inList {
			if len(o.Tag) == 2 {
				got = o.Tag[1]
			}
		} else {
			got = o.Location
		}
		return nil
	})
	vpAssert("value-form/present/"+cell, got != nil)
	if got != nil {
		vpAssert("value-form/same-as-pointer-form/"+cell, vpEqItem(got, inner))
	}
	vpReach("end")
}

func vpH_C01_Object()                { vpC01Cell(vpTypeIndex("Object")) }
func vpH_C01_Actor()                 { vpC01Cell(vpTypeIndex("Actor")) }
func vpH_C01_Activity()              { vpC01Cell(vpTypeIndex("Activity")) }
func vpH_C01_IntransitiveActivity()  { vpC01Cell(vpTypeIndex("IntransitiveActivity")) }
func vpH_C01_Question()              { vpC01Cell(vpTypeIndex("Question")) }
func vpH_C01_Collection()            { vpC01Cell(vpTypeIndex("Collection")) }
func vpH_C01_CollectionPage()        { vpC01Cell(vpTypeIndex("CollectionPage")) }
func vpH_C01_OrderedCollection()     { vpC01Cell(vpTypeIndex("OrderedCollection")) }
func vpH_C01_OrderedCollectionPage() { vpC01Cell(vpTypeIndex("OrderedCollectionPage")) }
func vpH_C01_Place()                 { vpC01Cell(vpTypeIndex("Place")) }
func vpH_C01_Profile()               { vpC01Cell(vpTypeIndex("Profile")) }
func vpH_C01_Relationship()          { vpC01Cell(vpTypeIndex("Relationship")) }
func vpH_C01_Tombstone()             { vpC01Cell(vpTypeIndex("Tombstone")) }
func vpH_C01_Link()                  { vpC01Cell(vpTypeIndex("Link")) }

func vpW_C01_twin() {
	x := &Object{ID: vpMkIRI('i'), Type: NoteType}
	b, _ := x.MarshalJSON()
	_, _ = UnmarshalJSON(b)
	vpAssert("twin", false)
}

// every field populated at once (a property whose writing or reading depends on another one being set)
func vpH_C01_all() {
	ti := vpChoice(len(vpTypeNames))
	fields := vpFieldsOf(ti)
	x := vpNew(ti)
	vpSetField(x, 0, 0, 'i')
	vpSymLeaves = false
	for f := 2; f < len(fields); f++ {
		if vpShapes(fields[f].Kind) > 0 {
			vpSetField(x, f, 0, byte('a'+f%20))
		}
	}
	vpSymLeaves = true
	b, err := vpMarshalItem(x)
	vpAssert("all/encode/"+vpTypeNames[ti], err == nil && len(b) > 0)
	y, err := UnmarshalJSON(b)
	vpAssert("all/decode/"+vpTypeNames[ti], err == nil && y != nil)
	if y != nil {
		vpDiffItems("all/roundtrip/"+vpTypeNames[ti], x, y, nil)
	}
	vpReach("end")
}

// thorough: an embedded object that itself has one populated property (depth 2)
func vpT_C01_depth2() {
	ti := vpChoice(3) // Object, Actor, Activity as the outer value
	oi := vpTypeIndex("Object")
	ofields := vpFieldsOf(oi)
	f := 2 + vpChoice(len(ofields)-2)
	n := vpShapes(ofields[f].Kind)
	if n == 0 {
		vpReach("end")
		return
	}
	inner := vpNew(oi)
	vpSetField(inner, 0, 0, 'j')
	vpSetField(inner, f, vpChoice(n), 'a')
	want := vpCloneItem(inner)
	vpC01Normal(want, oi, f)
	x := vpNew(ti)
	vpSetField(x, 0, 0, 'i')
	_ = OnObject(x, func(o *Object) error { o.Icon = inner; return nil })
	b, err := vpMarshalItem(x)
	vpAssert("d2/encode", err == nil && len(b) > 0)
	y, err := UnmarshalJSON(b)
	vpAssert("d2/decode", err == nil && y != nil)
	if y != nil {
		var got Item
		_ = OnObject(y, func(o *Object) error { got = o.Icon; return nil })
		cell := "Object." + ofields[f].Name
		vpAssert("d2/embedded-present/"+cell, got != nil)
		if got != nil {
			vpDiffItems("d2/roundtrip/"+cell, want, got, nil)
		}
	}
	vpReach("end")
}

// an embedded object that has neither id nor type and exactly one populated property
func vpH_C01_embedded_bare() {
	oi := vpTypeIndex("Object")
	ofields := vpFieldsOf(oi)
	f := 2 + vpChoice(len(ofields)-2)
	n := vpShapes(ofields[f].Kind)
	if n == 0 {
		vpReach("end")
		return
	}
	inner := &Object{}
	vpSetField(inner, f, 0, 'a')
	want := vpCloneItem(inner)
	vpC01Normal(want, oi, f)
	x := &Object{ID: vpMkIRI('i'), Type: NoteType}
	asMember := vpBool()
	if asMember {
		x.Tag = ItemCollection{vpMkIRI('t'), inner}
	} else {
		x.InReplyTo = inner
	}
	cell := "Object." + ofields[f].Name
	b, err := x.MarshalJSON()
	vpAssert("bare/encode/"+cell, err == nil && len(b) > 0)
	y, err := UnmarshalJSON(b)
	vpAssert("bare/decode/"+cell, err == nil && y != nil)
	if o, ok := y.(*Object); ok {
		var got Item
		if asMember {
			vpAssert("bare/member-kept/"+cell, len(o.Tag) == 2)
			if len(o.Tag) == 2 {
				got = o.Tag[1]
			}
		} else {
			got = o.InReplyTo
		}
		vpAssert("bare/embedded-kept/"+cell, got != nil)
		if got != nil {
			vpDiffItems("bare/roundtrip/"+cell, want, got, nil)
		}
	}
	vpReach("end")
}

// the per-type UnmarshalJSON methods agree with the package-level decoder
func vpH_C01_methods() {
	ti := vpChoice(len(vpTypeNames))
	x := vpNew(ti)
	vpSetField(x, 0, 0, 'i')
	vpSetField(x, 2, 0, 'n') // name
	b, err := vpMarshalItem(x)
	vpAssert("methods/encode", err == nil && len(b) > 0)
	y := vpNew(ti)
	_ = OnObject(y, func(o *Object) error { o.Type = ""; return nil })
	if l, ok := y.(*Link); ok {
		l.Type = ""
	}
	if u, ok := y.(interface{ UnmarshalJSON([]byte) error }); ok {
		vpAssert("methods/decode-ok/"+vpTypeNames[ti], u.UnmarshalJSON(b) == nil)
		vpDiffItems("methods/roundtrip/"+vpTypeNames[ti], x, y, nil)
	} else {
		vpAssert("methods/has-unmarshal/"+vpTypeNames[ti], false)
	}
	vpReach("end")
}
