package activitypub

import (
	"bytes"
	"time"
)

// Value constructors and structural comparators per field kind, used by the generated
// per-type setters and comparators (gen.go, produced from the current struct definitions).

// vpSymLeaves: when false the constructors below use fixed characters instead of symbolic ones
// (used by the everything-populated harnesses, where one symbol per leaf would multiply paths).
var vpSymLeaves = true

func vpLeafAlnum() byte {
	if vpSymLeaves {
		return vpAlnum()
	}
	return 'x'
}

func vpLeafLower() byte {
	if vpSymLeaves {
		return vpLower()
	}
	return 'y'
}

func vpMkIRI(tag byte) IRI {
	return IRI("https://h.ex/" + string([]byte{tag, vpLeafAlnum()}))
}

func vpMk_IRI(shape int, tag byte) IRI { return vpMkIRI(tag) }
func vpEq_IRI(a, b IRI) bool           { return a == b }
func vpZero_IRI(a IRI) bool            { return len(a) == 0 }

func vpMk_Type(shape int, tag byte) ActivityVocabularyType { return NoteType }
func vpEq_Type(a, b ActivityVocabularyType) bool           { return a == b }
func vpZero_Type(a ActivityVocabularyType) bool            { return len(a) == 0 }

// a property that holds a type name (formerType): a vocabulary name of another family than the holder
func vpMk_TypeName(shape int, tag byte) ActivityVocabularyType {
	if shape == 1 {
		return LikeType
	}
	return PersonType
}
func vpEq_TypeName(a, b ActivityVocabularyType) bool { return a == b }
func vpZero_TypeName(a ActivityVocabularyType) bool  { return len(a) == 0 }

func vpMk_Mime(shape int, tag byte) MimeType {
	return MimeType("text/" + string([]byte{vpLeafLower(), vpLeafLower()}))
}
func vpEq_Mime(a, b MimeType) bool { return a == b }
func vpZero_Mime(a MimeType) bool  { return len(a) == 0 }

func vpText2() Content { return Content{vpLeafLower(), vpLeafLower()} }

// language values: 0 single untagged, 1 single tagged, 2 two languages
func vpMk_NLV(shape int, tag byte) NaturalLanguageValues {
	switch shape {
	case 0:
		return NaturalLanguageValues{{Ref: NilLangRef, Value: vpText2()}}
	case 1:
		return NaturalLanguageValues{{Ref: "en", Value: vpText2()}}
	case 5: // allocated but empty
		return NaturalLanguageValues{}
	case 6: // present entries whose texts are empty
		return NaturalLanguageValues{{Ref: "en", Value: Content{}}}
	case 7:
		return NaturalLanguageValues{{Ref: NilLangRef, Value: Content{}}}
	case 8:
		return NaturalLanguageValues{{Ref: "en", Value: Content{}}, {Ref: "fr", Value: nil}}
	case 3: // a repeated tag (only where the codec promises to keep lists as they are: gob)
		return NaturalLanguageValues{{Ref: "en", Value: vpText2()}, {Ref: "fr", Value: vpText2()}, {Ref: "en", Value: vpText2()}}
	case 4: // two untagged texts
		return NaturalLanguageValues{{Ref: NilLangRef, Value: vpText2()}, {Ref: NilLangRef, Value: vpText2()}}
	default:
		return NaturalLanguageValues{{Ref: "en", Value: vpText2()}, {Ref: "fr", Value: vpText2()}}
	}
}

func vpEq_NLV(a, b NaturalLanguageValues) bool {
	if len(a) != len(b) {
		return false
	}
	for i := range a {
		if a[i].Ref != b[i].Ref || !bytes.Equal(a[i].Value, b[i].Value) {
			return false
		}
	}
	return true
}
func vpZero_NLV(a NaturalLanguageValues) bool { return len(a) == 0 }

// items: 0 IRI, 1 object with id, 2 object without id, 3 link, 4 actor, 5 list of two IRIs, 6 activity with object IRI,
// 7 one-element list holding an IRI, 8 one-element list holding an object, 9 object with neither id nor type
func vpMk_Item(shape int, tag byte) Item {
	switch shape {
	case 0:
		return vpMkIRI(tag)
	case 1:
		return &Object{ID: vpMkIRI(tag), Type: NoteType, Name: vpMk_NLV(0, tag)}
	case 2:
		return &Object{Type: NoteType, Name: vpMk_NLV(0, tag)}
	case 3:
		return &Link{Type: MentionType, Href: vpMkIRI(tag)}
	case 4:
		return &Actor{ID: vpMkIRI(tag), Type: PersonType}
	case 5:
		return ItemCollection{vpMkIRI(tag), vpMkIRI(tag + 1)}
	case 6:
		return &Activity{ID: vpMkIRI(tag), Type: LikeType, Object: vpMkIRI(tag + 1)}
	case 7:
		return ItemCollection{vpMkIRI(tag)}
	case 8:
		return ItemCollection{&Object{ID: vpMkIRI(tag), Type: NoteType, Summary: vpMk_NLV(0, tag)}}
	case 11: // an empty list as a single item
		return ItemCollection{}
	case 12: // an object that says nothing
		return &Object{}
	case 13:
		return IRI("")
	case 17: // links with an id whose type is not one of the two link types of the vocabulary
		return &Link{ID: vpMkIRI(tag + 1), Type: "Hashtag", Href: vpMkIRI(tag)}
	case 18:
		return &Link{ID: vpMkIRI(tag + 1), Href: vpMkIRI(tag)}
	case 10: // a link that has an id of its own besides its target
		return &Link{ID: vpMkIRI(tag + 1), Type: MentionType, Href: vpMkIRI(tag)}
	default:
		return &Object{Name: vpMk_NLV(0, tag)} // neither id nor type
	}
}
func vpEq_Item(a, b Item) bool { return vpEqItem(a, b) }
func vpZero_Item(a Item) bool  { return a == nil }

// lists: 0 one IRI, 1 two IRIs, 2 IRI + object, 3 one object
func vpMk_Items(shape int, tag byte) ItemCollection {
	switch shape {
	case 0:
		return ItemCollection{vpMkIRI(tag)}
	case 1:
		return ItemCollection{vpMkIRI(tag), vpMkIRI(tag + 1)}
	case 2:
		return ItemCollection{vpMkIRI(tag), &Object{ID: vpMkIRI(tag + 1), Type: NoteType}}
	case 16: // allocated but empty
		return ItemCollection{}
	case 14: // a repeated member (only offered where the codec promises to keep lists as they are: gob)
		a := vpMkIRI(tag)
		return ItemCollection{a, vpMkIRI(tag + 1), a}
	case 15:
		a := vpMkIRI(tag)
		return ItemCollection{&Object{ID: a, Type: NoteType}, vpMkIRI(tag + 1), &Object{ID: a, Type: NoteType}}
	case 4: // two activities that differ in nothing but their ids (same actor, object, target, result, origin, instrument)
		mk := func(id IRI) Item {
			return &Activity{ID: id, Type: AddType, Actor: IRI("https://h.ex/actor"), Object: IRI("https://h.ex/note"), Target: IRI("https://h.ex/featured"),
				Result: IRI("https://h.ex/result"), Origin: IRI("https://h.ex/origin"), Instrument: IRI("https://h.ex/app")}
		}
		return ItemCollection{mk(vpMkIRI(tag)), mk(vpMkIRI(tag + 1))}
	case 5: // two objects that differ in nothing but their ids
		return ItemCollection{&Object{ID: vpMkIRI(tag), Type: NoteType, Name: NaturalLanguageValues{{Ref: NilLangRef, Value: Content("same")}}}, &Object{ID: vpMkIRI(tag + 1), Type: NoteType, Name: NaturalLanguageValues{{Ref: NilLangRef, Value: Content("same")}}}}
	default:
		return ItemCollection{&Object{ID: vpMkIRI(tag), Type: NoteType}}
	}
}
func vpEq_Items(a, b ItemCollection) bool {
	if len(a) != len(b) {
		return false
	}
	for i := range a {
		if !vpEqItem(a[i], b[i]) {
			return false
		}
	}
	return true
}
func vpZero_Items(a ItemCollection) bool { return len(a) == 0 }

var vpTimes = []time.Time{
	time.Date(2020, 2, 29, 23, 59, 59, 0, time.UTC),
	time.Date(1970, 1, 1, 0, 0, 0, 0, time.UTC),
	time.Date(1969, 12, 31, 23, 59, 59, 0, time.UTC),
	time.Date(2021, 6, 15, 23, 30, 0, 0, time.FixedZone("X", 3*3600+1800)), // an instant held in another zone
}

func vpMk_Time(shape int, tag byte) time.Time { return vpTimes[shape%len(vpTimes)] }
func vpEq_Time(a, b time.Time) bool           { return a.Equal(b) }
func vpZero_Time(a time.Time) bool            { return a.IsZero() }

// (the last ones are whole days: written without a time part, the shortest strings the codec produces)
var vpDurations = []time.Duration{90 * time.Second, time.Hour, 25 * time.Hour, 72 * time.Hour, 24 * time.Hour, 240 * time.Hour, -48 * time.Hour}

func vpMk_Duration(shape int, tag byte) time.Duration { return vpDurations[shape%len(vpDurations)] }
func vpEq_Duration(a, b time.Duration) bool           { return a == b }
func vpZero_Duration(a time.Duration) bool            { return a == 0 }

// source: 0 content + media type, 1 content only, 2 media type only, 3 two-language content only
func vpMk_Source(shape int, tag byte) Source {
	if shape == 2 {
		return Source{MediaType: vpMk_Mime(0, tag)}
	}
	if shape == 3 {
		return Source{Content: vpMk_NLV(2, tag)}
	}
	s := Source{Content: vpMk_NLV(0, tag)}
	if shape == 0 {
		s.MediaType = vpMk_Mime(0, tag)
	}
	return s
}
func vpEq_Source(a, b Source) bool {
	return a.MediaType == b.MediaType && vpEq_NLV(a.Content, b.Content)
}
func vpZero_Source(a Source) bool { return len(a.MediaType) == 0 && len(a.Content) == 0 }

func vpMk_Uint(shape int, tag byte) uint {
	if !vpSymLeaves {
		return 7
	}
	return uint(vpInt(1, 99))
}
func vpEq_Uint(a, b uint) bool { return a == b }
func vpZero_Uint(a uint) bool  { return a == 0 }

func vpMk_Int(shape int, tag byte) int64 {
	if !vpSymLeaves {
		return 7
	}
	if shape == 1 {
		return -vpInt(1, 99)
	}
	return vpInt(1, 99)
}
func vpEq_Int(a, b int64) bool { return a == b }
func vpZero_Int(a int64) bool  { return a == 0 }

// floats: exact binary fractions, a whole number, seven decimals, a very small and a very large one
var vpFloats = []float64{12.25, -0.5, 90, 45.1234567, 1e-7, -123456789.125, 1e21}

func vpMk_Float(shape int, tag byte) float64 { return vpFloats[shape%len(vpFloats)] }
func vpEq_Float(a, b float64) bool           { return a == b }
func vpZero_Float(a float64) bool            { return a == 0 }

func vpMk_String(shape int, tag byte) string { return string([]byte{vpLeafLower(), vpLeafLower()}) }
func vpEq_String(a, b string) bool           { return a == b }
func vpZero_String(a string) bool            { return len(a) == 0 }

func vpMk_Bool(shape int, tag byte) bool { return true }
func vpEq_Bool(a, b bool) bool           { return a == b }
func vpZero_Bool(a bool) bool            { return !a }

func vpMk_LangRef(shape int, tag byte) LangRef { return LangRef([]byte{vpLeafLower(), vpLeafLower()}) }
func vpEq_LangRef(a, b LangRef) bool           { return a == b }
func vpZero_LangRef(a LangRef) bool            { return len(a) == 0 }

// public key: shape 0 all three members, shape 1+k only member k
func vpMk_PublicKey(shape int, tag byte) PublicKey {
	all := PublicKey{ID: vpMkIRI(tag), Owner: vpMkIRI(tag + 1), PublicKeyPem: "-----BEGIN " + string([]byte{vpLeafLower()}) + "-----"}
	switch shape {
	case 1:
		return PublicKey{ID: all.ID}
	case 2:
		return PublicKey{Owner: all.Owner}
	case 3:
		return PublicKey{PublicKeyPem: all.PublicKeyPem}
	}
	return all
}
func vpEq_PublicKey(a, b PublicKey) bool {
	return a.ID == b.ID && a.Owner == b.Owner && a.PublicKeyPem == b.PublicKeyPem
}
func vpZero_PublicKey(a PublicKey) bool {
	return len(a.ID) == 0 && len(a.Owner) == 0 && len(a.PublicKeyPem) == 0
}

// endpoints: shape 0 only sharedInbox, shape 1+k only the k-th member of the struct (from the
// generated field table, so a member added to the struct is covered), last shape all members
func vpMk_Endpoints(shape int, tag byte) *Endpoints {
	n := len(vpFields_Endpoints)
	e := &Endpoints{}
	switch {
	case shape == 0:
		e.SharedInbox = vpMkIRI(tag)
	case shape <= n:
		vpSet_Endpoints(e, shape-1, 0, tag)
	default:
		for k := 0; k < n; k++ {
			vpSet_Endpoints(e, k, 0, tag+byte(k))
		}
	}
	return e
}
func vpEq_Endpoints(a, b *Endpoints) bool {
	if a == nil || b == nil {
		return a == nil && b == nil
	}
	return vpDeepEq_Endpoints(a, b)
}
func vpZero_Endpoints(a *Endpoints) bool { return a == nil }

// a field whose type the harness library does not know (added to a struct after these harnesses were
// written): it has no shapes, is never populated and compares as equal; the cells of all other fields
// keep running
func vpEq_Unknown(a, b any) bool { return true }
func vpZero_Unknown(a any) bool  { return true }

// vpShapes returns the number of shapes offered for a field kind.
func vpShapes(kind string) int {
	switch kind {
	case "NLV":
		return 3
	case "Item":
		return 11
	case "Items":
		return 6
	case "Float":
		return len(vpFloats)
	case "Time":
		return len(vpTimes)
	case "Duration":
		return len(vpDurations)
	case "Source", "PublicKey":
		return 4
	case "TypeName":
		return 2
	case "Endpoints":
		return len(vpFields_Endpoints) + 2
	case "Int":
		return 2
	case "Type", "Unknown":
		return 0
	}
	return 1
}
