package activitypub

import "bytes"

// C19 — language-value containers behave as ordered maps from tag to text.

type vpKV struct {
	tag LangRef
	val Content
}

func vpRefGet(ref []vpKV, tag LangRef) (Content, bool) {
	for _, e := range ref {
		if e.tag == tag {
			return e.val, true
		}
	}
	return nil, false
}

// vpC19Agree asserts that the container agrees with the reference list.
func vpC19Agree(step string, n NaturalLanguageValues, ref []vpKV, tags []LangRef) {
	vpAssert(step+"/count", int(n.Count()) == len(ref))
	vpAssert(step+"/len", len(n) == len(ref))
	if len(n) != len(ref) {
		return
	}
	for i := range ref {
		vpAssert(step+"/entry-tag", n[i].Ref == ref[i].tag)
		vpAssert(step+"/entry-text", bytes.Equal(n[i].Value, ref[i].val))
	}
	if len(ref) > 0 {
		f := n.First()
		vpAssert(step+"/first-tag", f.Ref == ref[0].tag)
		vpAssert(step+"/first-text", bytes.Equal(f.Value, ref[0].val))
	} else {
		f := n.First()
		vpAssert(step+"/first-empty", f.Ref == "" && len(f.Value) == 0)
	}
	for _, t := range tags {
		got := n.Get(t)
		want, ok := vpRefGet(ref, t)
		if ok && len(want) == 0 {
			vpAssert(step+"/get-present-empty", len(got) == 0)
		} else if ok {
			vpAssert(step+"/get-present", got != nil && bytes.Equal(got, want))
		} else {
			vpAssert(step+"/get-absent", got == nil)
		}
	}
}

func vpC19Hist(h int) {
	// the nil tag "-", the empty tag "" (a different tag), and two letters that may coincide
	tags := []LangRef{NilLangRef, LangRef([]byte{vpRange('a', 'c')}), LangRef([]byte{vpRange('a', 'c')}), LangRef("")}
	var n NaturalLanguageValues
	var ref []vpKV
	for step := 0; step < h; step++ {
		tag := tags[vpChoice(len(tags))]
		val := Content{vpByte()}
		if vpBool() {
			val = Content{} // an entry may hold an empty text: the tag is present all the same
		}
		switch vpChoice(3) {
		case 0: // Set
			old := make([]vpKV, len(ref))
			copy(old, ref)
			_, had := vpRefGet(ref, tag)
			err := n.Set(tag, val)
			vpAssert("set/err", err == nil)
			vpAssert("set/get", bytes.Equal(n.Get(tag), val))
			if had {
				vpAssert("set/len-same", len(n) == len(old))
			} else {
				vpAssert("set/len-plus-one", len(n) == len(old)+1)
			}
			if len(n) < len(old) {
				return
			}
			// order of tags unchanged, texts of other tags unchanged
			for i := range old {
				vpAssert("set/order", n[i].Ref == old[i].tag)
				if old[i].tag != tag {
					vpAssert("set/others", bytes.Equal(n[i].Value, old[i].val))
				}
			}
			// re-synchronise the reference (entries with the same tag beyond the first are unspecified)
			ref = ref[:0]
			for _, e := range n {
				ref = append(ref, vpKV{e.Ref, e.Value})
			}
		case 1: // Append
			err := n.Append(tag, val)
			vpAssert("append/err", err == nil)
			ref = append(ref, vpKV{tag, val})
		case 2: // Add
			n.Add(LangRefValue{Ref: tag, Value: val})
			ref = append(ref, vpKV{tag, val})
		}
		vpC19Agree("after", n, ref, tags)
	}
	vpReach("end")
}

func vpH_C19_hist2() { vpC19Hist(2) }
func vpH_C19_hist3() { vpC19Hist(3) }

func vpT_C19_hist4() { vpC19Hist(4) }

// (histories of five operations over four tags and empty/non-empty texts exceed 400 000 paths: not registered)

// vpC19Pairs builds a list of k entries with pairwise distinct symbolic tags.
func vpC19Pairs(k int) NaturalLanguageValues {
	var n NaturalLanguageValues
	for i := 0; i < k; i++ {
		c := vpRange('a', 'd')
		t := LangRef([]byte{c})
		if c == 'd' {
			t = NilLangRef // the nil tag is a tag like any other: a text under it is not the same pair under "en"
		}
		for _, e := range n {
			vpAssume(e.Ref != t)
		}
		// texts from an alphabet with a case pair: texts differing only in letter case are different texts
		if vpBool() {
			n = append(n, LangRefValue{Ref: t, Value: Content{}}) // an empty text is a text: its tag counts
			continue
		}
		n = append(n, LangRefValue{Ref: t, Value: Content{vpC19Texts[vpRange(0, 2)]}})
	}
	return n
}

var vpC19Texts = [3]byte{'a', 'A', 'b'}

func vpC19SameSet(a, b NaturalLanguageValues) bool {
	if len(a) != len(b) {
		return false
	}
	for _, x := range a {
		found := false
		for _, y := range b {
			if x.Ref == y.Ref && bytes.Equal(x.Value, y.Value) {
				found = true
			}
		}
		if !found {
			return false
		}
	}
	return true
}

func vpC19Eq(ka, kb int) {
	a := vpC19Pairs(ka)
	b := vpC19Pairs(kb)
	want := vpC19SameSet(a, b)
	got := a.Equals(b)
	if want {
		vpAssert("equals/same-set-equal", got)
	} else {
		vpAssert("equals/different-set-unequal", !got)
	}
	vpAssert("equals/reflexive", a.Equals(a))
	vpAssert("equals/symmetric", b.Equals(a) == got)
	vpReach("end")
}

func vpH_C19_eq() {
	ka := vpChoice(3)
	kb := vpChoice(3)
	vpC19Eq(ka, kb)
}

func vpT_C19_eq3() {
	ka := vpChoice(4)
	kb := vpChoice(4)
	vpC19Eq(ka, kb)
}

// two entries given the very same text slice, then one of them is set to something else: the other
// entry and the caller's slice keep their bytes (the container does not write into texts it was given)
func vpH_C19_shared_text() {
	t := make(Content, 2, 8)
	t[0], t[1] = vpRange('a', 'c'), vpRange('a', 'c')
	keep := Content{t[0], t[1]}
	u := Content{vpRange('x', 'z')}
	var n NaturalLanguageValues
	_ = n.Append("en", t)
	if vpBool() {
		_ = n.Append("fr", t)
	} else {
		n.Add(LangRefValue{Ref: "fr", Value: t})
	}
	switch vpChoice(3) {
	case 0:
		_ = n.Set("en", u)
		vpAssert("shared/set-get", bytes.Equal(n.Get("en"), u))
	case 1:
		_ = n.Set("en", Content{})
	default:
		_ = n.Append("de", u)
	}
	vpAssert("shared/other-entry-intact", bytes.Equal(n.Get("fr"), keep))
	vpAssert("shared/callers-text-intact", bytes.Equal(t, keep))
	vpReach("end")
}

func vpW_C19_twin() {
	var n NaturalLanguageValues
	_ = n.Append("en", Content{vpByte()})
	vpAssert("twin", false)
}
