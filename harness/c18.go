package activitypub

// C18 — property copy/update merges without losing data and rejects mismatches.

var vpC18Types = []string{"Object", "Actor", "Collection", "OrderedCollection", "CollectionPage", "OrderedCollectionPage"}

var vpC18Merged = map[string]bool{
	"Name": true, "Summary": true, "Content": true, "MediaType": true, "Attachment": true, "AttributedTo": true, "Audience": true,
	"Context": true, "Generator": true, "Icon": true, "Image": true, "InReplyTo": true, "Location": true, "Preview": true,
	"Replies": true, "Tag": true, "URL": true, "To": true, "Bto": true, "CC": true, "BCC": true, "StartTime": true, "EndTime": true,
	"Inbox": true, "Outbox": true, "Following": true, "Followers": true, "Liked": true, "PreferredUsername": true,
	"First": true, "Last": true, "Items": true, "OrderedItems": true, "PartOf": true, "Next": true, "Prev": true,
}

func vpC18IsMerged(n string) bool { return vpC18Merged[n] }

// one property at a time, presence on both sides chosen independently
func vpC18Field(tname string) {
	ti := vpTypeIndex(tname)
	fields := vpFieldsOf(ti)
	f := 2 + vpChoice(len(fields)-2)
	n := vpShapes(fields[f].Kind)
	if n == 0 || fields[f].Name == "ID" || fields[f].Name == "Type" {
		vpReach("end")
		return
	}
	shape := vpChoice(n)
	to, from := vpNew(ti), vpNew(ti)
	vpSetField(to, 0, 0, 'i')
	vpSetID(from, to.GetID())
	inTo, inFrom := vpBool(), vpBool()
	if inTo {
		vpSetField(to, f, shape, 'a')
	}
	if inFrom {
		// a different value than to's whenever the kind offers one (instants, durations and numbers
		// are concrete per shape; texts and ids differ through the tag)
		vpSetField(from, f, (shape+1)%n, 'k')
	}
	old := vpCloneItem(to)
	fromSnap := vpCloneItem(from)
	cell := tname + "." + fields[f].Name
	res, err := CopyItemProperties(to, from)
	vpAssert("ok/"+cell, err == nil && res == to)
	vpMergeCheck("merge/"+cell, to, old, from, vpC18IsMerged)
	vpDiffItems("from-unchanged/"+cell, fromSnap, from, nil)
	vpReach("end")
}

func vpH_C18_field_Object()                { vpC18Field("Object") }
func vpH_C18_field_Actor()                 { vpC18Field("Actor") }
func vpH_C18_field_Collection()            { vpC18Field("Collection") }
func vpH_C18_field_OrderedCollection()     { vpC18Field("OrderedCollection") }
func vpH_C18_field_CollectionPage()        { vpC18Field("CollectionPage") }
func vpH_C18_field_OrderedCollectionPage() { vpC18Field("OrderedCollectionPage") }

// everything populated on both sides
func vpC18All(tname string) {
	ti := vpTypeIndex(tname)
	fields := vpFieldsOf(ti)
	to, from := vpNew(ti), vpNew(ti)
	vpSetField(to, 0, 0, 'i')
	vpSetID(from, to.GetID())
	vpSymLeaves = false // concrete leaves: with everything populated the merge code compares many values
	for f := 2; f < len(fields); f++ {
		if vpShapes(fields[f].Kind) == 0 {
			continue
		}
		vpSetField(to, f, 0, byte('a'+f%10))
		vpSetField(from, f, 1%vpShapes(fields[f].Kind), byte('k'+f%10))
	}
	vpSymLeaves = true
	old := vpCloneItem(to)
	fromSnap := vpCloneItem(from)
	_, err := CopyItemProperties(to, from)
	vpAssert("all/ok/"+tname, err == nil)
	vpMergeCheck("all/"+tname, to, old, from, vpC18IsMerged)
	vpDiffItems("all/from-unchanged/"+tname, fromSnap, from, nil)
	vpReach("end")
}

func vpH_C18_all() { vpC18All(vpC18Types[vpChoice(len(vpC18Types))]) }

// refusals leave `to` untouched
func vpH_C18_refuse() {
	ti := vpTypeIndex(vpC18Types[vpChoice(len(vpC18Types))])
	to, from := vpNew(ti), vpNew(ti)
	vpSetField(to, 0, 0, 'i')
	vpSetField(to, vpFieldIndex(ti, "Name"), 0, 'a')
	vpSetID(from, to.GetID())
	vpSetField(from, vpFieldIndex(ti, "Summary"), 0, 'k')
	old := vpCloneItem(to)
	fromSnap := vpCloneItem(from)
	var err error
	why := ""
	switch vpChoice(7) {
	case 5: // a nil pointer of the value's own type counts as nil too
		why = "typed-nil-from"
		p := vpMayPanic(func() { _, err = CopyItemProperties(to, vpNilOfKind(1+ti)) })
		vpAssert("refuse/no-panic/"+why, !p)
	case 6:
		why = "typed-nil-to"
		p := vpMayPanic(func() { _, err = CopyItemProperties(vpNilOfKind(1+ti), from) })
		vpAssert("refuse/no-panic/"+why, !p)
	case 0:
		why = "nil-to"
		_, err = CopyItemProperties(nil, from)
	case 1:
		why = "nil-from"
		_, err = CopyItemProperties(to, nil)
	case 2:
		why = "other-id"
		// a different id: another letter, or an id that shares host and a prefix/suffix of the path
		// with to's (a longer path, a shorter one, the bare host, another query) - none is equivalent
		tid := string(to.GetID())
		switch vpChoice(9) {
		case 6: // a query on one side only, and a query that holds the other's pairs and one more
			vpSetID(from, IRI(tid+"?type=Create"))
		case 7:
			vpSetID(to, IRI(tid+"?q=go"))
			vpSetID(from, IRI(tid+"?q=go&lang=ro"))
			old = vpCloneItem(to)
		case 8:
			vpSetID(to, IRI(tid+"?q=go&q=c"))
			vpSetID(from, IRI(tid+"?q=go"))
			old = vpCloneItem(to)
		case 0:
			vpSetField(from, 0, 0, 'j')
		case 1:
			vpSetID(from, IRI(tid+"0"))
		case 2:
			vpSetID(from, IRI(tid[:len(tid)-1]))
		case 3:
			vpSetID(from, IRI("https://h.ex"))
		case 4:
			vpSetID(from, IRI(tid+"?id=2"))
			vpSetID(to, IRI(tid+"?id=1"))
			old = vpCloneItem(to)
		default:
			vpSetID(from, IRI(tid+"/outbox"))
		}
		fromSnap = vpCloneItem(from)
		_, err = CopyItemProperties(to, from)
		if vpBool() { // and the other way round
			_, err2 := CopyItemProperties(from, to)
			vpAssert("refuse/error/other-id-reverse", err2 != nil)
			vpDiffItems("refuse/untouched/other-id-reverse", fromSnap, from, nil)
		}
	case 3:
		why = "other-type"
		_ = OnObject(from, func(o *Object) error { o.Type = VideoType; return nil })
		fromSnap = vpCloneItem(from)
		_, err = CopyItemProperties(to, from)
	default:
		why = "unsupported-type"
		a, b := &Activity{ID: to.GetID(), Type: LikeType, Name: vpMk_NLV(0, 'a')}, &Activity{ID: to.GetID(), Type: LikeType, Summary: vpMk_NLV(0, 'k')}
		oa := *a
		_, err = CopyItemProperties(a, b)
		vpDiffItems("refuse/untouched/"+why, &oa, a, nil)
	}
	vpAssert("refuse/error/"+why, err != nil)
	vpDiffItems("refuse/untouched/"+why, old, to, nil)
	vpDiffItems("refuse/from-unchanged/"+why, fromSnap, from, nil)
	vpReach("end")
}

// ids that are equivalent but not identical are accepted; `to` ends up with from's id
func vpH_C18_equiv_ids() {
	to := &Object{ID: vpMkIRI('i'), Type: NoteType}
	from := &Object{ID: IRI(string(to.ID) + "/"), Type: NoteType, Name: vpMk_NLV(0, 'k')}
	_, err := CopyItemProperties(to, from)
	vpAssert("equiv/ok", err == nil)
	vpAssert("equiv/id-from", to.ID == from.ID)
	vpAssert("equiv/name", vpEq_NLV(to.Name, from.Name))
	vpReach("end")
}

// exactly one side untyped: a typed `to` refuses an untyped `from` (its type differs from from's) and
// stays untouched; an untyped `to` accepts a typed `from` and carries from's type afterwards
func vpH_C18_untyped_side() {
	ti := vpTypeIndex(vpC18Types[vpChoice(len(vpC18Types))])
	to, from := vpNew(ti), vpNew(ti)
	typ := to.GetType()
	vpSetField(to, 0, 0, 'i')
	vpSetField(to, vpFieldIndex(ti, "Name"), 0, 'a')
	vpSetID(from, to.GetID())
	vpSetField(from, vpFieldIndex(ti, "Summary"), 0, 'k')
	untypedFrom := vpBool()
	if untypedFrom {
		_ = OnObject(from, func(o *Object) error { o.Type = ""; return nil })
	} else {
		_ = OnObject(to, func(o *Object) error { o.Type = ""; return nil })
	}
	old := vpCloneItem(to)
	fromSnap := vpCloneItem(from)
	_, err := CopyItemProperties(to, from)
	if untypedFrom {
		vpAssert("untyped-from/refused", err != nil)
		vpDiffItems("untyped-from/untouched", old, to, nil)
	} else {
		vpAssert("untyped-to/accepted", err == nil)
		vpAssert("untyped-to/type-from", to.GetType() == typ)
		vpMergeCheck("untyped-to/merge", to, old, from, vpC18IsMerged)
	}
	vpDiffItems("untyped-side/from-unchanged", fromSnap, from, nil)
	vpReach("end")
}

// the same single-item property set on both sides to values the library's equality holds equal but
// that are not the same value (an IRI and an embedded object with that id, the two schemes): a merged
// property set in `from` has from's value afterwards - not "something equal to it"
func vpH_C18_equivalent_values() {
	ti := vpTypeIndex(vpC18Types[vpChoice(len(vpC18Types))])
	fields := vpFieldsOf(ti)
	f := 2 + vpChoice(len(fields)-2)
	if fields[f].Kind != "Item" || !vpC18Merged[fields[f].Name] {
		vpReach("end")
		return
	}
	id := vpMkIRI('v')
	var a, b Item
	switch vpChoice(4) {
	case 0:
		a, b = id, &Object{ID: id, Type: NoteType, Name: vpMk_NLV(0, 'n')}
	case 1:
		a, b = &Object{ID: id, Type: NoteType, Name: vpMk_NLV(0, 'n')}, id
	case 2:
		a, b = id, IRI("http"+string(id[5:]))
	default:
		a, b = &Object{ID: id, Type: NoteType, Name: vpMk_NLV(0, 'n'), Summary: vpMk_NLV(0, 's')}, &Object{ID: id, Type: NoteType, Name: vpMk_NLV(0, 'n')}
	}
	to, from := vpNew(ti), vpNew(ti)
	vpSetField(to, 0, 0, 'i')
	vpSetID(from, to.GetID())
	vpMapItemFields(to, func(name string, v Item) Item {
		if name == fields[f].Name {
			return a
		}
		return v
	})
	vpMapItemFields(from, func(name string, v Item) Item {
		if name == fields[f].Name {
			return b
		}
		return v
	})
	cell := vpTypeNames[ti] + "." + fields[f].Name
	_, err := CopyItemProperties(to, from)
	vpAssert("equivalent/ok/"+cell, err == nil)
	var got Item
	vpMapItemFields(to, func(name string, v Item) Item {
		if name == fields[f].Name {
			got = v
		}
		return v
	})
	vpAssert("equivalent/from-wins/"+cell, vpEqItem(got, b))
	vpReach("end")
}

// vpC18SetList / vpC18GetList: the list-valued merged properties, through the struct's own fields
func vpC18List(x Item, name string, set bool, v ItemCollection) ItemCollection {
	var out ItemCollection
	obj := func(o *Object) {
		var p *ItemCollection
		switch name {
		case "To":
			p = &o.To
		case "Bto":
			p = &o.Bto
		case "CC":
			p = &o.CC
		case "BCC":
			p = &o.BCC
		case "Audience":
			p = &o.Audience
		case "Tag":
			p = &o.Tag
		}
		if p != nil {
			if set {
				*p = v
			}
			out = *p
		}
	}
	switch c := x.(type) {
	case *Collection:
		if name == "Items" {
			if set {
				c.Items = v
			}
			return c.Items
		}
	case *CollectionPage:
		if name == "Items" {
			if set {
				c.Items = v
			}
			return c.Items
		}
	case *OrderedCollection:
		if name == "OrderedItems" {
			if set {
				c.OrderedItems = v
			}
			return c.OrderedItems
		}
	case *OrderedCollectionPage:
		if name == "OrderedItems" {
			if set {
				c.OrderedItems = v
			}
			return c.OrderedItems
		}
	}
	_ = OnObject(x, func(o *Object) error { obj(o); return nil })
	return out
}

// both sides hold lists that the library's equality holds equal but that are not the same lists
// (members in another order, an id against the object it names, http against https): from's list wins
func vpH_C18_equivalent_lists() {
	tname := vpC18Types[vpChoice(len(vpC18Types))]
	ti := vpTypeIndex(tname)
	names := []string{"To", "Bto", "CC", "BCC", "Audience", "Tag"}
	switch tname {
	case "Collection", "CollectionPage":
		names = append(names, "Items")
	case "OrderedCollection", "OrderedCollectionPage":
		names = append(names, "OrderedItems")
	}
	name := names[vpChoice(len(names))]
	i1, i2 := IRI("https://h.ex/one"), IRI("https://h.ex/two")
	var a, b ItemCollection
	switch vpChoice(4) {
	case 0:
		a, b = ItemCollection{i1, i2}, ItemCollection{i2, i1}
	case 1:
		a, b = ItemCollection{i1}, ItemCollection{&Object{ID: i1, Type: NoteType, Name: NaturalLanguageValues{{Ref: NilLangRef, Value: Content("n")}}}}
	case 2:
		a, b = ItemCollection{i1, i2}, ItemCollection{IRI("http://h.ex/one"), i2}
	default:
		a, b = ItemCollection{&Object{ID: i1, Type: NoteType}, i2}, ItemCollection{i1, &Object{ID: i2, Type: NoteType}}
	}
	to, from := vpNew(ti), vpNew(ti)
	vpSetField(to, 0, 0, 'i')
	vpSetID(from, to.GetID())
	vpC18List(to, name, true, a)
	vpC18List(from, name, true, b)
	cell := tname + "." + name
	_, err := CopyItemProperties(to, from)
	vpAssert("equivalent-lists/ok/"+cell, err == nil)
	got := vpC18List(to, name, false, nil)
	vpAssert("equivalent-lists/from-wins/"+cell, len(got) == len(b))
	if len(got) == len(b) {
		for i := range b {
			vpAssert("equivalent-lists/from-wins/"+cell, vpEqItem(got[i], b[i]))
		}
	}
	vpReach("end")
}

func vpW_C18_twin() {
	to := &Object{ID: vpMkIRI('i'), Type: NoteType}
	from := &Object{ID: to.ID, Type: NoteType}
	_, _ = CopyItemProperties(to, from)
	vpAssert("twin", false)
}
