package activitypub

import "bytes"

// C05 — decoding reads what the document says, and re-encoding is a fixpoint.

// vpC05Normal: the documented normal form, applied to both the model value and the decoded value.
func vpC05Normal(x Item) {
	vpMapItemFields(x, func(name string, v Item) Item {
		if col, ok := v.(ItemCollection); ok && len(col) == 1 {
			return col[0]
		}
		return v
	})
	_ = vpNormNLVField(x, "")
}

func vpC05Fixpoint(cell string, y Item) {
	b1, err := vpMarshalItem(y)
	vpAssert("fixpoint/encode/"+cell, err == nil && len(b1) > 0)
	if len(b1) == 0 {
		return
	}
	y2, err := UnmarshalJSON(b1)
	vpAssert("fixpoint/decode/"+cell, err == nil && y2 != nil)
	if y2 == nil {
		return
	}
	n1, n2 := vpCloneItem(y), vpCloneItem(y2)
	vpC05Normal(n1)
	vpC05Normal(n2)
	vpDiffItems("fixpoint/same-value/"+cell, n1, n2, nil)
	b2, err := vpMarshalItem(y2)
	vpAssert("fixpoint/encode2/"+cell, err == nil)
	y3, _ := UnmarshalJSON(b2)
	if y3 != nil {
		b3, _ := vpMarshalItem(y3)
		vpAssert("fixpoint/bytes-stable/"+cell, bytes.Equal(b2, b3))
	}
}

func vpC05Doc(ti int) {
	fields := vpFieldsOf(ti)
	f := 2 + vpChoice(len(fields)-2)
	n := vpShapes(fields[f].Kind)
	if n == 0 || fields[f].Term == "" {
		vpReach("end")
		return
	}
	shape := vpChoice(n)
	variant := vpChoice(3)
	x := vpNew(ti)
	vpSetField(x, 0, 0, 'i')
	vpSetField(x, f, shape, 'a')
	cell := vpTypeNames[ti] + "." + fields[f].Name + "/" + string([]byte{'0' + byte(shape/10), '0' + byte(shape%10)}) + "/v" + string([]byte{'0' + byte(variant)})
	doc := vpDocOf(x, variant)
	y, err := UnmarshalJSON(doc)
	vpAssert("decode/no-error/"+cell, err == nil)
	vpAssert("decode/non-nil/"+cell, y != nil)
	if y == nil {
		vpReach("end")
		return
	}
	want := vpCloneItem(x)
	vpC05Normal(want)
	got := vpCloneItem(y)
	vpC05Normal(got)
	vpDiffItems("reads-the-document/"+cell, want, got, nil)
	vpC05Fixpoint(cell, y)
	vpReach("end")
}

func vpH_C05_Object()                { vpC05Doc(vpTypeIndex("Object")) }
func vpH_C05_Actor()                 { vpC05Doc(vpTypeIndex("Actor")) }
func vpH_C05_Activity()              { vpC05Doc(vpTypeIndex("Activity")) }
func vpH_C05_IntransitiveActivity()  { vpC05Doc(vpTypeIndex("IntransitiveActivity")) }
func vpH_C05_Question()              { vpC05Doc(vpTypeIndex("Question")) }
func vpH_C05_Collection()            { vpC05Doc(vpTypeIndex("Collection")) }
func vpH_C05_CollectionPage()        { vpC05Doc(vpTypeIndex("CollectionPage")) }
func vpH_C05_OrderedCollection()     { vpC05Doc(vpTypeIndex("OrderedCollection")) }
func vpH_C05_OrderedCollectionPage() { vpC05Doc(vpTypeIndex("OrderedCollectionPage")) }
func vpH_C05_Place()                 { vpC05Doc(vpTypeIndex("Place")) }
func vpH_C05_Profile()               { vpC05Doc(vpTypeIndex("Profile")) }
func vpH_C05_Relationship()          { vpC05Doc(vpTypeIndex("Relationship")) }
func vpH_C05_Tombstone()             { vpC05Doc(vpTypeIndex("Tombstone")) }
func vpH_C05_Link()                  { vpC05Doc(vpTypeIndex("Link")) }

// documents without an id, bearing each type name of the vocabulary and one further property:
// the decoder keeps them (it may only discard what says nothing) and reads the property
func vpH_C05_idless_typed() {
	c := vpVocabConsts[vpChoice(len(vpVocabConsts))]
	spec, ok := vpSpec[c.Value]
	if !ok {
		vpReach("end")
		return
	}
	ti := vpTypeIndex(spec.goType)
	fields := vpFieldsOf(ti)
	f := 2 + vpChoice(len(fields)-2)
	if vpShapes(fields[f].Kind) == 0 || fields[f].Term == "" {
		vpReach("end")
		return
	}
	x := vpNew(ti)
	if l, ok := x.(*Link); ok {
		l.Type = c.Value
	} else {
		_ = OnObject(x, func(o *Object) error { o.Type = c.Value; return nil })
	}
	vpSetField(x, f, 0, 'a')
	cell := string(c.Value) + "." + fields[f].Name
	doc := vpDocOf(x, 0)
	y, err := UnmarshalJSON(doc)
	vpAssert("idless/decode/no-error/"+cell, err == nil)
	vpAssert("idless/decode/kept/"+cell, y != nil)
	if y == nil {
		vpReach("end")
		return
	}
	want := vpCloneItem(x)
	vpC05Normal(want)
	got := vpCloneItem(y)
	vpC05Normal(got)
	vpDiffItems("idless/reads-the-document/"+cell, want, got, nil)
	// the same document nested in an item position of another one
	outer := []byte(`{"id":"https://h.ex/outer","type":"Note","icon":` + string(doc) + `}`)
	o, err := UnmarshalJSON(outer)
	vpAssert("idless/nested/decodes/"+cell, err == nil && o != nil)
	if ob, ok := o.(*Object); ok {
		vpAssert("idless/nested/kept/"+cell, ob.Icon != nil)
		if ob.Icon != nil {
			vpAssert("idless/nested/go-type/"+cell, vpSameGoType(ob.Icon, x))
		}
	}
	vpReach("end")
}

// a document with every property of its type present
func vpH_C05_all() {
	ti := vpChoice(len(vpTypeNames))
	variant := vpChoice(3)
	x := vpPopulated(ti)
	cell := vpTypeNames[ti] + "/v" + string([]byte{'0' + byte(variant)})
	y, err := UnmarshalJSON(vpDocOf(x, variant))
	vpAssert("all/decode/"+cell, err == nil && y != nil)
	if y == nil {
		vpReach("end")
		return
	}
	want := vpCloneItem(x)
	vpC05Normal(want)
	got := vpCloneItem(y)
	vpC05Normal(got)
	vpDiffItems("all/reads-the-document/"+cell, want, got, nil)
	vpC05Fixpoint("all/"+cell, y)
	vpReach("end")
}

// documents whose texts need escaping: decode, then the re-encoding is a fixpoint
func vpH_C05_text_fixpoint() {
	texts := []string{`a\u2028b`, `\u2029`, `<p>Hi & \"you\"</p>`, `line1\nline2\ttab`, `\ud83d\ude00 \u00e9`, `C:\\new\\table`, `\\u0041`, `\u0001\u001f\u007f`}
	t := texts[vpChoice(len(texts))]
	var doc string
	switch vpChoice(4) {
	case 0:
		doc = `{"id":"https://h.ex/i","type":"Note","name":"` + t + `"}`
	case 1:
		doc = `{"id":"https://h.ex/i","type":"Note","contentMap":{"en":"` + t + `","fr":"x"}}`
	case 2:
		doc = `{"id":"https://h.ex/i","type":"Person","preferredUsername":"` + t + `"}`
	default:
		doc = `{"id":"https://h.ex/i","type":"Note","source":{"content":"` + t + `","mediaType":"text/x"}}`
	}
	y, err := UnmarshalJSON([]byte(doc))
	vpAssert("text-fixpoint/decodes", err == nil && y != nil)
	if y != nil {
		vpC05Fixpoint("text", y)
	}
	vpReach("end")
}

// the repository's mock documents decode, and their re-encoding is a fixpoint
func vpH_C05_mocks() {
	m := vpMockDocs[vpChoice(len(vpMockDocs))]
	y, err := UnmarshalJSON([]byte(m.doc))
	vpAssert("mock/decode/"+m.name, err == nil)
	if y != nil {
		vpC05Fixpoint("mock/"+m.name, y)
	}
	vpReach("end")
}

func vpW_C05_twin() {
	x := &Object{ID: vpMkIRI('i'), Type: NoteType}
	_, _ = UnmarshalJSON(vpDocOf(x, 0))
	vpAssert("twin", false)
}
