package activitypub

// C20 — nil and typed-nil items are handled as "nothing", never as a crash.

// vpNilKindCount: untyped nil + a nil pointer of every vocabulary struct type of the current tree.
func vpNilKindCount() int { return 1 + len(vpTypeNames) }

func vpNilKindName(k int) string {
	if k == 0 {
		return "nil"
	}
	return "*" + vpTypeNames[k-1]
}

// vpNilOfKind returns the nil item of kind k (generated type table order).
func vpNilOfKind(k int) Item {
	if k == 0 {
		return nil
	}
	switch vpNew(k - 1).(type) {
	case *Object:
		return (*Object)(nil)
	case *Actor:
		return (*Actor)(nil)
	case *Activity:
		return (*Activity)(nil)
	case *IntransitiveActivity:
		return (*IntransitiveActivity)(nil)
	case *Question:
		return (*Question)(nil)
	case *Collection:
		return (*Collection)(nil)
	case *CollectionPage:
		return (*CollectionPage)(nil)
	case *OrderedCollection:
		return (*OrderedCollection)(nil)
	case *OrderedCollectionPage:
		return (*OrderedCollectionPage)(nil)
	case *Place:
		return (*Place)(nil)
	case *Profile:
		return (*Profile)(nil)
	case *Relationship:
		return (*Relationship)(nil)
	case *Tombstone:
		return (*Tombstone)(nil)
	case *Link:
		return (*Link)(nil)
	}
	return nil
}

type vpHelper struct {
	name string // the exported function it exercises, as listed in vpItemFuncs
	call func(x Item, cell string)
}

func vpNilPtrCheck(cell string, isNil bool) {
	vpAssert("callback-gets-nil/"+cell, isNil)
}

var vpC20Helpers = []vpHelper{
	{"IsNil", func(x Item, c string) { vpAssert("isnil/"+c, IsNil(x)) }},
	{"NotEmpty", func(x Item, c string) { vpAssert("notempty-false/"+c, !NotEmpty(x)) }},
	{"ItemsEqual", func(x Item, c string) {
		vpAssert("equals-nil/"+c, ItemsEqual(x, nil) && ItemsEqual(nil, x) && ItemsEqual(x, x))
		o := &Object{ID: "https://h.ex/o", Type: NoteType}
		vpAssert("unequal-nonnil/"+c, !ItemsEqual(x, o) && !ItemsEqual(o, x))
	}},
	{"IsIRI", func(x Item, c string) { vpAssert("isiri-false/"+c, !IsIRI(x)) }},
	{"IsIRIs", func(x Item, c string) { vpAssert("isiris-false/"+c, !IsIRIs(x)) }},
	{"IsItemCollection", func(x Item, c string) { vpAssert("iscol-false/"+c, !IsItemCollection(x)) }},
	{"IsLink", func(x Item, c string) { _ = IsLink(x) }},
	{"IsObject", func(x Item, c string) { _ = IsObject(x) }},
	{"OnObject", func(x Item, c string) {
		_ = OnObject(x, func(p *Object) error { vpNilPtrCheck(c, p == nil); return nil })
	}},
	{"OnActivity", func(x Item, c string) {
		_ = OnActivity(x, func(p *Activity) error { vpNilPtrCheck(c, p == nil); return nil })
	}},
	{"OnIntransitiveActivity", func(x Item, c string) {
		_ = OnIntransitiveActivity(x, func(p *IntransitiveActivity) error { vpNilPtrCheck(c, p == nil); return nil })
	}},
	{"OnQuestion", func(x Item, c string) {
		_ = OnQuestion(x, func(p *Question) error { vpNilPtrCheck(c, p == nil); return nil })
	}},
	{"OnActor", func(x Item, c string) {
		_ = OnActor(x, func(p *Actor) error { vpNilPtrCheck(c, p == nil); return nil })
	}},
	{"OnCollection", func(x Item, c string) {
		_ = OnCollection(x, func(p *Collection) error { vpNilPtrCheck(c, p == nil); return nil })
	}},
	{"OnCollectionPage", func(x Item, c string) {
		_ = OnCollectionPage(x, func(p *CollectionPage) error { vpNilPtrCheck(c, p == nil); return nil })
	}},
	{"OnOrderedCollection", func(x Item, c string) {
		_ = OnOrderedCollection(x, func(p *OrderedCollection) error { vpNilPtrCheck(c, p == nil); return nil })
	}},
	{"OnOrderedCollectionPage", func(x Item, c string) {
		_ = OnOrderedCollectionPage(x, func(p *OrderedCollectionPage) error { vpNilPtrCheck(c, p == nil); return nil })
	}},
	{"OnCollectionIntf", func(x Item, c string) {
		_ = OnCollectionIntf(x, func(p CollectionInterface) error { vpNilPtrCheck(c, IsNil(p)); return nil })
	}},
	{"OnItemCollection", func(x Item, c string) {
		_ = OnItemCollection(x, func(p *ItemCollection) error { vpNilPtrCheck(c, p == nil || len(*p) == 0); return nil })
	}},
	{"OnIRIs", func(x Item, c string) {
		_ = OnIRIs(x, func(p *IRIs) error { vpNilPtrCheck(c, p == nil || len(*p) == 0); return nil })
	}},
	{"OnLink", func(x Item, c string) {
		_ = OnLink(x, func(p *Link) error { vpNilPtrCheck(c, p == nil); return nil })
	}},
	{"OnPlace", func(x Item, c string) {
		_ = OnPlace(x, func(p *Place) error { vpNilPtrCheck(c, p == nil); return nil })
	}},
	{"OnProfile", func(x Item, c string) {
		_ = OnProfile(x, func(p *Profile) error { vpNilPtrCheck(c, p == nil); return nil })
	}},
	{"OnRelationship", func(x Item, c string) {
		_ = OnRelationship(x, func(p *Relationship) error { vpNilPtrCheck(c, p == nil); return nil })
	}},
	{"OnTombstone", func(x Item, c string) {
		_ = OnTombstone(x, func(p *Tombstone) error { vpNilPtrCheck(c, p == nil); return nil })
	}},
	{"OnItem", func(x Item, c string) {
		_ = OnItem(x, func(p Item) error { vpNilPtrCheck(c, IsNil(p)); return nil })
	}},
	{"On", func(x Item, c string) {
		_ = On[Object](x, func(p *Object) error { return nil })
	}},
	{"To", func(x Item, c string) { _, _ = To[Object](x) }},
	{"ToObject", func(x Item, c string) { p, _ := ToObject(x); vpNilPtrCheck(c, p == nil) }},
	{"ToActivity", func(x Item, c string) { p, _ := ToActivity(x); vpNilPtrCheck(c, p == nil) }},
	{"ToIntransitiveActivity", func(x Item, c string) { p, _ := ToIntransitiveActivity(x); vpNilPtrCheck(c, p == nil) }},
	{"ToQuestion", func(x Item, c string) { p, _ := ToQuestion(x); vpNilPtrCheck(c, p == nil) }},
	{"ToActor", func(x Item, c string) { p, _ := ToActor(x); vpNilPtrCheck(c, p == nil) }},
	{"ToCollection", func(x Item, c string) { p, _ := ToCollection(x); vpNilPtrCheck(c, p == nil) }},
	{"ToCollectionPage", func(x Item, c string) { p, _ := ToCollectionPage(x); vpNilPtrCheck(c, p == nil) }},
	{"ToOrderedCollection", func(x Item, c string) { p, _ := ToOrderedCollection(x); vpNilPtrCheck(c, p == nil) }},
	{"ToOrderedCollectionPage", func(x Item, c string) { p, _ := ToOrderedCollectionPage(x); vpNilPtrCheck(c, p == nil) }},
	{"ToItemCollection", func(x Item, c string) { p, _ := ToItemCollection(x); vpNilPtrCheck(c, p == nil || len(*p) == 0) }},
	{"GobEncode", func(x Item, c string) {
		b, err := GobEncode(x)
		vpAssert("gob-nothing/"+c, err != nil || len(b) == 0)
	}},
	{"ToIRIs", func(x Item, c string) { p, _ := ToIRIs(x); vpNilPtrCheck(c, p == nil || len(*p) == 0) }},
	{"ToLink", func(x Item, c string) { p, _ := ToLink(x); vpNilPtrCheck(c, p == nil) }},
	{"ToPlace", func(x Item, c string) { p, _ := ToPlace(x); vpNilPtrCheck(c, p == nil) }},
	{"ToProfile", func(x Item, c string) { p, _ := ToProfile(x); vpNilPtrCheck(c, p == nil) }},
	{"ToRelationship", func(x Item, c string) { p, _ := ToRelationship(x); vpNilPtrCheck(c, p == nil) }},
	{"ToTombstone", func(x Item, c string) { p, _ := ToTombstone(x); vpNilPtrCheck(c, p == nil) }},
	{"Flatten", func(x Item, c string) { vpAssert("flatten-nil/"+c, IsNil(Flatten(x))) }},
	{"FlattenProperties", func(x Item, c string) { vpAssert("flattenprops-nil/"+c, IsNil(FlattenProperties(x))) }},
	{"FlattenToIRI", func(x Item, c string) { vpAssert("flattentoiri-nil/"+c, IsNil(FlattenToIRI(x))) }},
	{"CleanRecipients", func(x Item, c string) { vpAssert("clean-nil/"+c, IsNil(CleanRecipients(x))) }},
	{"DerefItem", func(x Item, c string) {
		for _, it := range DerefItem(x) {
			vpAssert("deref-members-nil/"+c, IsNil(it))
		}
	}},
	{"ItemOrderTimestamp", func(x Item, c string) {
		o := &Object{ID: "https://h.ex/o", Type: NoteType}
		vpAssert("order/nil-first/"+c, ItemOrderTimestamp(x, o))
		vpAssert("order/not-after/"+c, !ItemOrderTimestamp(o, x))
		vpAssert("order/irreflexive/"+c, !ItemOrderTimestamp(x, x))
	}},
	{"CopyItemProperties", func(x Item, c string) {
		o := &Object{ID: "https://h.ex/o", Type: NoteType}
		_, e1 := CopyItemProperties(x, o)
		_, e2 := CopyItemProperties(o, x)
		vpAssert("copy/refused/"+c, e1 != nil && e2 != nil)
	}},
	{"(ItemCollection).Contains", func(x Item, c string) {
		col := ItemCollection{IRI("https://h.ex/a"), &Object{ID: "https://h.ex/b"}}
		vpAssert("contains-false/"+c, !col.Contains(x))
	}},
	{"(*ItemCollection).Append", func(x Item, c string) {
		col := ItemCollection{IRI("https://h.ex/a")}
		_ = col.Append(x)
		for _, it := range col {
			vpAssert("append-stores-no-nil/"+c, !IsNil(it))
		}
	}},
	{"(*ItemCollection).Remove", func(x Item, c string) {
		col := ItemCollection{IRI("https://h.ex/a"), &Object{ID: "https://h.ex/b"}}
		col.Remove(x)
		vpAssert("remove-noop/"+c, len(col) == 2)
	}},
	{"(IRIs).Contains", func(x Item, c string) {
		col := IRIs{"https://h.ex/a"}
		vpAssert("iris-contains-false/"+c, !col.Contains(x))
	}},
	{"(*IRIs).Append", func(x Item, c string) {
		col := IRIs{"https://h.ex/a"}
		_ = col.Append(x)
		vpAssert("iris-append-noop/"+c, len(col) == 1)
	}},
	{"(*Collection).Append", func(x Item, c string) {
		col := &Collection{ID: "https://h.ex/c", Type: CollectionType, Items: ItemCollection{IRI("https://h.ex/a")}}
		_ = col.Append(x)
		_ = col.Contains(x)
		for _, it := range col.Items {
			vpAssert("coll-append-stores-no-nil/"+c, !IsNil(it))
		}
	}},
	{"(*OrderedCollection).Append", func(x Item, c string) {
		col := &OrderedCollection{ID: "https://h.ex/c", Type: OrderedCollectionType}
		_ = col.Append(x)
		_ = col.Contains(x)
		vpAssert("ocoll-append-stores-no-nil/"+c, len(col.OrderedItems) == 0)
	}},
	{"(*CollectionPage).Append", func(x Item, c string) {
		col := &CollectionPage{ID: "https://h.ex/c", Type: CollectionPageType}
		_ = col.Append(x)
		_ = col.Contains(x)
		vpAssert("page-append-stores-no-nil/"+c, len(col.Items) == 0)
	}},
	{"(*OrderedCollectionPage).Append", func(x Item, c string) {
		col := &OrderedCollectionPage{ID: "https://h.ex/c", Type: OrderedCollectionPageType}
		_ = col.Append(x)
		_ = col.Contains(x)
		vpAssert("opage-append-stores-no-nil/"+c, len(col.OrderedItems) == 0)
	}},
	{"(Object).Equals", func(x Item, c string) {
		o := Object{ID: "https://h.ex/o", Type: NoteType}
		if x != nil { // Equals takes a non-nil interface by contract of ItemsEqual; typed nils reach it
			vpAssert("object-equals-false/"+c, !o.Equals(x))
		}
	}},
	{"(CollectionPath).IRI", func(x Item, c string) { _ = Inbox.IRI(x) }},
	{"(CollectionPath).Of", func(x Item, c string) { vpAssert("of-nil/"+c, IsNil(Likes.Of(x))) }},
	{"(CollectionPath).AddTo", func(x Item, c string) {
		_, ok := Outbox.AddTo(x)
		vpAssert("addto-refused/"+c, !ok)
	}},
	{"JSONWriteItemProp", func(x Item, c string) {
		var b []byte
		_ = JSONWriteItemProp(&b, "object", x)
	}},
}

// functions with an item parameter that are constructors or are exercised through the entries above
var vpC20Indirect = map[string]string{
	"AcceptNew": "constructor", "ActivityNew": "constructor", "AddNew": "constructor", "AnnounceNew": "constructor", "BlockNew": "constructor",
	"CreateNew": "constructor", "DeleteNew": "constructor", "DislikeNew": "constructor", "FlagNew": "constructor", "FollowNew": "constructor",
	"IgnoreNew": "constructor", "InviteNew": "constructor", "JoinNew": "constructor", "LeaveNew": "constructor", "LikeNew": "constructor",
	"ListenNew": "constructor", "MoveNew": "constructor", "OfferNew": "constructor", "ReadNew": "constructor", "RejectNew": "constructor",
	"RemoveNew": "constructor", "TentativeAcceptNew": "constructor", "TentativeRejectNew": "constructor", "UndoNew": "constructor",
	"UpdateNew": "constructor", "ViewNew": "constructor",
	"ErrorInvalidType": "error constructor",
	// the Equals / Contains / ItemsMatch methods are not listed here any more: "reached through ItemsEqual"
	// was not true for nil pointers (ItemsEqual answers before calling them); they are driven directly by
	// the synthesised calls of vpH_C20_auto, on a zero receiver
	"(IRI).ItemsMatch": "IRI matching, not an item helper",
	"JSONWriteIRIProp": "IRI writer", "MarshalJSON": "encoder entry (C20 encoders harness)", "GobEncode": "exercised: top, member and property entries",
}

// every exported function of the current tree that takes an item is either exercised or accounted for
func vpC20HandCovered(n string) bool {
	for _, h := range vpC20Helpers {
		if h.name == n {
			return true
		}
	}
	_, ok := vpC20Indirect[n]
	return ok
}

func vpH_C20_coverage() {
	for _, n := range vpItemFuncs {
		covered := vpC20HandCovered(n)
		for _, a := range vpAutoHelpers {
			if a.name == n {
				covered = true
			}
		}
		if !covered {
			// a helper of a shape neither the hand-written entries nor the synthesised calls reach:
			// recorded in the evidence, not held against the code
			vpObserve("not-driven/"+n, 1)
		}
	}
	vpReach("end")
}

// helpers that no hand-written entry drives (added to the library after these harnesses were
// written) are called with synthesised arguments: the nil kind under test in every item position,
// do-nothing call-backs, fresh pointers and zero values elsewhere
func vpH_C20_auto() {
	var todo []vpHelper
	for _, a := range vpAutoHelpers {
		if !vpC20HandCovered(a.name) {
			todo = append(todo, a)
		}
	}
	if len(todo) == 0 {
		vpReach("end")
		return
	}
	h := todo[vpChoice(len(todo))]
	k := vpChoice(vpNilKindCount())
	x := vpNilOfKind(k)
	cell := h.name + "/" + vpNilKindName(k)
	panicked := vpMayPanic(func() { h.call(x, cell) })
	vpAssert("auto/no-panic/"+cell, !panicked)
	vpReach("end")
}

// top level: helper x nil kind
func vpC20Top(lo, hi int) {
	h := vpC20Helpers[lo+vpChoice(hi-lo)]
	k := vpChoice(vpNilKindCount())
	x := vpNilOfKind(k)
	cell := h.name + "/" + vpNilKindName(k)
	panicked := vpMayPanic(func() { h.call(x, cell) })
	vpAssert("no-panic/"+cell, !panicked)
	vpReach("end")
}

func vpH_C20_top_a() { vpC20Top(0, 24) }
func vpH_C20_top_b() { vpC20Top(24, 48) }
func vpH_C20_top_c() { vpC20Top(48, len(vpC20Helpers)) }

// as a member of a list handed to the list-aware helpers
func vpH_C20_member() {
	k := vpChoice(vpNilKindCount())
	x := vpNilOfKind(k)
	col := ItemCollection{IRI("https://h.ex/a"), x, &Object{ID: "https://h.ex/b", Type: NoteType}}
	var what string
	panicked := false
	switch vpChoice(25) {
	case 21:
		what = "GobEncode-list"
		panicked = vpMayPanic(func() { _, _ = GobEncode(col) })
	case 22:
		what = "ToIRIs-of-pointer"
		panicked = vpMayPanic(func() { _, _ = ToIRIs(&col) })
	case 23:
		what = "ToIRIs-of-value"
		panicked = vpMayPanic(func() { _, _ = ToIRIs(col) })
	case 24:
		what = "ItemCollection.Recipients"
		panicked = vpMayPanic(func() { _ = col.Recipients() })
	case 8:
		what = "OnActor"
		panicked = vpMayPanic(func() { _ = OnActor(col, func(p *Actor) error { return nil }) })
	case 9:
		what = "OnActivity"
		panicked = vpMayPanic(func() { _ = OnActivity(col, func(p *Activity) error { return nil }) })
	case 10:
		what = "OnIntransitiveActivity"
		panicked = vpMayPanic(func() { _ = OnIntransitiveActivity(col, func(p *IntransitiveActivity) error { return nil }) })
	case 11:
		what = "OnQuestion"
		panicked = vpMayPanic(func() { _ = OnQuestion(col, func(p *Question) error { return nil }) })
	case 12:
		what = "OnPlace"
		panicked = vpMayPanic(func() { _ = OnPlace(col, func(p *Place) error { return nil }) })
	case 13:
		what = "OnProfile"
		panicked = vpMayPanic(func() { _ = OnProfile(col, func(p *Profile) error { return nil }) })
	case 14:
		what = "OnRelationship"
		panicked = vpMayPanic(func() { _ = OnRelationship(col, func(p *Relationship) error { return nil }) })
	case 15:
		what = "OnTombstone"
		panicked = vpMayPanic(func() { _ = OnTombstone(col, func(p *Tombstone) error { return nil }) })
	case 16:
		what = "OnLink"
		panicked = vpMayPanic(func() { _ = OnLink(col, func(p *Link) error { return nil }) })
	case 17:
		what = "OnCollectionIntf"
		panicked = vpMayPanic(func() { _ = OnCollectionIntf(col, func(c CollectionInterface) error { _ = c.Count(); return nil }) })
	case 18:
		what = "OnItem"
		panicked = vpMayPanic(func() { _ = OnItem(col, func(it Item) error { _ = IsNil(it); return nil }) })
	case 19:
		what = "ItemCollection.Remove"
		panicked = vpMayPanic(func() { col.Remove(IRI("https://h.ex/b")) })
	case 20:
		what = "ItemCollection.Append-present"
		panicked = vpMayPanic(func() { _ = col.Append(IRI("https://h.ex/b")) })
	case 0:
		what = "OnObject"
		panicked = vpMayPanic(func() { _ = OnObject(col, func(p *Object) error { return nil }) })
	case 1:
		what = "ItemCollectionDeduplication"
		panicked = vpMayPanic(func() { _ = ItemCollectionDeduplication(&col) })
	case 2:
		what = "FlattenItemCollection"
		panicked = vpMayPanic(func() { _ = FlattenItemCollection(col) })
	case 3:
		what = "ItemCollection.Clean"
		panicked = vpMayPanic(func() { col.Clean() })
	case 4:
		what = "ItemCollection.Contains"
		panicked = vpMayPanic(func() { _ = col.Contains(IRI("https://h.ex/zz")) })
	case 5:
		what = "ItemCollection.IRIs"
		panicked = vpMayPanic(func() { _ = col.IRIs() })
	case 6:
		what = "ItemCollection.MarshalJSON"
		panicked = vpMayPanic(func() { _, _ = col.MarshalJSON() })
	default:
		what = "ItemsEqual-lists"
		panicked = vpMayPanic(func() { _ = ItemsEqual(col, col) })
	}
	vpAssert("member/no-panic/"+what+"/"+vpNilKindName(k), !panicked)
	vpReach("end")
}

// as a property of an otherwise valid value
func vpH_C20_property() {
	k := vpChoice(vpNilKindCount())
	x := vpNilOfKind(k)
	act := &Activity{ID: "https://h.ex/act", Type: LikeType, Actor: IRI("https://h.ex/a"), Object: x, To: ItemCollection{IRI("https://h.ex/t")}}
	ob := &Object{ID: "https://h.ex/o", Type: NoteType, Icon: x, AttributedTo: x, Replies: x}
	var what string
	panicked := false
	switch vpChoice(10) {
	case 8:
		what = "GobEncode(activity)"
		panicked = vpMayPanic(func() { _, _ = GobEncode(act) })
	case 9:
		what = "GobEncode(object)"
		panicked = vpMayPanic(func() { _, _ = GobEncode(ob) })
	case 0:
		what = "FlattenProperties(activity)"
		panicked = vpMayPanic(func() { _ = FlattenProperties(act) })
	case 1:
		what = "Activity.Clean"
		panicked = vpMayPanic(func() { act.Clean() })
	case 2:
		what = "Activity.Recipients"
		panicked = vpMayPanic(func() { _ = act.Recipients() })
	case 3:
		what = "Activity.MarshalJSON"
		panicked = vpMayPanic(func() { _, _ = act.MarshalJSON() })
	case 4:
		what = "FlattenProperties(object)"
		panicked = vpMayPanic(func() { _ = FlattenProperties(ob) })
	case 5:
		what = "Object.Clean"
		panicked = vpMayPanic(func() { ob.Clean() })
	case 6:
		what = "Object.MarshalJSON"
		panicked = vpMayPanic(func() { _, _ = ob.MarshalJSON() })
	default:
		what = "ItemsEqual(object,object)"
		panicked = vpMayPanic(func() { _ = ItemsEqual(ob, ob); _ = ItemsEqual(act, act) })
	}
	vpAssert("property/no-panic/"+what+"/"+vpNilKindName(k), !panicked)
	vpReach("end")
}

// a typed-nil collection property of an otherwise valid actor / object
func vpH_C20_collection_property() {
	k := 1 + vpChoice(vpNilKindCount()-1)
	x := vpNilOfKind(k)
	a := &Actor{ID: "https://h.ex/actor", Type: PersonType, Inbox: x, Outbox: x, Liked: x, Following: x, Followers: x}
	o := &Object{ID: "https://h.ex/ob", Type: NoteType, Likes: x, Shares: x, Replies: x}
	names := []CollectionPath{Inbox, Outbox, Liked, Following, Followers, Likes, Shares, Replies}
	c := names[vpChoice(len(names))]
	var it Item = a
	if c == Likes || c == Shares || c == Replies {
		it = o
	}
	cell := string(c) + "/" + vpNilKindName(k)
	var iri IRI
	p := vpMayPanic(func() { iri = c.IRI(it) })
	vpAssert("collprop/IRI-no-panic/"+cell, !p)
	if !p {
		vpAssert("collprop/IRI-falls-back-to-built/"+cell, iri == IRIf(it.GetLink(), c))
	}
	p = vpMayPanic(func() { _ = c.Of(it) })
	vpAssert("collprop/Of-no-panic/"+cell, !p)
	p = vpMayPanic(func() { _, _ = c.AddTo(it) })
	vpAssert("collprop/AddTo-no-panic/"+cell, !p)
	vpReach("end")
}

// every single-item property of every type set to a nil pointer (of every type): both encoders,
// equality, cleaning and flattening of the holder go on without it
func vpH_C20_every_property() {
	ti := vpChoice(len(vpTypeNames))
	fields := vpFieldsOf(ti)
	f := 2 + vpChoice(len(fields)-2)
	if fields[f].Kind != "Item" {
		vpReach("end")
		return
	}
	k := 1 + vpChoice(vpNilKindCount()-1)
	nilv := vpNilOfKind(k)
	x := vpNew(ti)
	vpSetField(x, 0, 0, 'i')
	name := fields[f].Name
	vpMapItemFields(x, func(n string, v Item) Item {
		if n == name {
			return nilv
		}
		return v
	})
	cell := vpTypeNames[ti] + "." + name + "/" + vpNilKindName(k)
	var what string
	panicked := false
	switch vpChoice(6) {
	case 0:
		what = "MarshalJSON"
		panicked = vpMayPanic(func() { _, _ = vpMarshalItem(x) })
	case 1:
		what = "GobEncode"
		panicked = vpMayPanic(func() { _, _ = GobEncode(x) })
	case 2:
		what = "ItemsEqual"
		panicked = vpMayPanic(func() { _ = ItemsEqual(x, x); _ = ItemsEqual(x, vpCloneItem(x)) })
	case 3:
		what = "CleanRecipients"
		panicked = vpMayPanic(func() { _ = CleanRecipients(x) })
	case 4:
		what = "FlattenProperties"
		panicked = vpMayPanic(func() { _ = FlattenProperties(x) })
	default:
		what = "NotEmpty-IsNil"
		panicked = vpMayPanic(func() { _ = NotEmpty(x); _ = IsNil(x) })
	}
	vpAssert("every-property/no-panic/"+what+"/"+cell, !panicked)
	vpReach("end")
}

func vpW_C20_twin() {
	_ = IsNil(nil)
	vpAssert("twin", false)
}
