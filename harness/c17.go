package activitypub

import (
	"sort"
	"time"
)

// C17 — ItemOrderTimestamp is a strict weak order consistent with publication time.

const vpSecRange = int64(1) << 40

// vpInstant returns time.Unix(sec,nsec) for symbolic sec, nsec, in UTC or a fixed zone. The zero
// time.Time is the value sec = vpZeroSec, nsec = 0 in UTC, so it is inside the symbolic range.
func vpInstant(zone bool) (time.Time, vpKey) {
	sec := vpInt(vpZeroSec, vpSecRange)
	nsec := vpInt(0, 999999999)
	if zone {
		return time.Unix(sec, nsec).In(vpZone), vpKey{sec, nsec}
	}
	return time.Unix(sec, nsec).UTC(), vpKey{sec, nsec}
}

var vpZone = time.FixedZone("X", 3*3600+1800)

// zero time.Time is year 1: seconds since the Unix epoch
const vpZeroSec = int64(-62135596800)

type vpKey struct{ sec, nsec int64 }

func vpKeyLess(a, b vpKey) bool { // a < b
	if a.sec != b.sec {
		return a.sec < b.sec
	}
	return a.nsec < b.nsec
}

// vpC17Object builds an object of a chosen type with symbolic instants and returns its ordering key.
func vpC17Object(kind int) (Item, vpKey) {
	p, kp := vpInstant(kind%2 == 1)
	u, ku := vpInstant(kind%3 == 1)
	k := kp
	if vpKeyLess(kp, ku) {
		k = ku
	}
	switch kind {
	case 0:
		return &Object{ID: "https://h.ex/a", Published: p, Updated: u}, k
	case 1:
		return &Actor{ID: "https://h.ex/b", Published: p, Updated: u}, k
	case 2:
		return &Activity{ID: "https://h.ex/c", Published: p, Updated: u}, k
	case 3:
		return Object{ID: "https://h.ex/d", Published: p, Updated: u}, k
	case 4:
		return &Place{ID: "https://h.ex/e", Published: p, Updated: u}, k
	case 5:
		return &Question{ID: "https://h.ex/f", Published: p, Updated: u}, k
	default:
		return &OrderedCollection{ID: "https://h.ex/g", Published: p, Updated: u}, k
	}
}

func vpC17Pair(ka, kb int) {
	a, keyA := vpC17Object(ka)
	b, keyB := vpC17Object(kb)
	lt := ItemOrderTimestamp(a, b)
	gt := ItemOrderTimestamp(b, a)
	vpAssert("consistent", lt == vpKeyLess(keyB, keyA))
	vpAssert("consistent-rev", gt == vpKeyLess(keyA, keyB))
	vpAssert("asymmetric", !(lt && gt))
	vpAssert("irreflexive-a", !ItemOrderTimestamp(a, a))
	vpAssert("nil-first", ItemOrderTimestamp(nil, a))
	vpAssert("not-before-nil", !ItemOrderTimestamp(a, nil))
	vpReach("end")
}

// every vocabulary type that carries published/updated, populated through its own struct fields,
// with every other instant of the type (startTime, endTime, deleted) set to a far-future decoy: the
// key is read from published/updated and from nowhere else, whatever the concrete type
var vpC17Decoy = time.Date(2999, 1, 1, 0, 0, 0, 0, time.UTC)

func vpC17Typed(ti int) (Item, vpKey, bool) {
	p, kp := vpInstant(false)
	u, ku := vpInstant(ti%2 == 1)
	k := kp
	if vpKeyLess(kp, ku) {
		k = ku
	}
	x := vpNew(ti)
	if !vpSetInstants(x, p, u, vpC17Decoy) {
		return nil, k, false
	}
	if vpBool() {
		return vpValueOf(x), k, true // the value (non-pointer) form
	}
	return x, k, true
}

func vpH_C17_every_type() {
	ti := vpChoice(len(vpTypeNames))
	a, keyA, ok := vpC17Typed(ti)
	if !ok {
		vpReach("end")
		return
	}
	b, keyB := vpC17Object(0)
	name := vpTypeNames[ti]
	vpAssert("every-type/consistent/"+name, ItemOrderTimestamp(a, b) == vpKeyLess(keyB, keyA))
	vpAssert("every-type/consistent-rev/"+name, ItemOrderTimestamp(b, a) == vpKeyLess(keyA, keyB))
	vpReach("end")
}

// object types declared in another scope (the twins of c08b.go): ordered by their instants like any
// object, also when nothing at all is set on them (both instants zero: never before anything, after
// every object that has an instant)
func vpH_C17_foreign() {
	p, kp := vpInstant(false)
	u, ku := vpInstant(true)
	k := kp
	if vpKeyLess(kp, ku) {
		k = ku
	}
	// (only twins of Object: the ordering reads its instants through the Object view, and the library
	// refuses to present a foreign type of another layout as Object - C08's refusal clause)
	var a Item
	kind := vpChoice(3)
	switch kind {
	case 0:
		a = &vpFObject{ID: "https://h.ex/f", Published: p, Updated: u}
	case 1:
		a = &vpFObject{Published: p, Updated: u}
	default:
		a, k = &vpFObject{}, vpKey{vpZeroSec, 0}
	}
	b, keyB := vpC17Object(0)
	cell := string([]byte{'0' + byte(kind)})
	vpAssert("foreign/consistent/"+cell, ItemOrderTimestamp(a, b) == vpKeyLess(keyB, k))
	vpAssert("foreign/consistent-rev/"+cell, ItemOrderTimestamp(b, a) == vpKeyLess(k, keyB))
	vpAssert("foreign/irreflexive/"+cell, !ItemOrderTimestamp(a, a))
	vpAssert("foreign/not-before-nil/"+cell, !ItemOrderTimestamp(a, nil))
	vpReach("end")
}

func vpH_C17_pair_obj()   { vpC17Pair(0, 0) }
func vpH_C17_pair_mixed() { vpC17Pair(1, 2) }
func vpH_C17_pair_value() { vpC17Pair(3, 4) }
func vpH_C17_pair_coll()  { vpC17Pair(5, 6) }

// the zero time.Time is literally what the symbolic range contains at its lower end
func vpH_C17_zero() {
	z := time.Unix(vpZeroSec, 0).UTC()
	vpAssert("zero-is-zero", z.IsZero() && z == time.Time{})
	a := &Object{Published: time.Time{}, Updated: time.Time{}}
	b, kb := vpC17Object(0)
	vpAssert("zero-vs-any", ItemOrderTimestamp(b, a) == vpKeyLess(vpKey{vpZeroSec, 0}, kb))
	vpAssert("any-vs-zero", !ItemOrderTimestamp(a, b))
	vpReach("end")
}

func vpH_C17_nil() {
	vpAssert("nil-nil", !ItemOrderTimestamp(nil, nil))
	k := 1 + vpChoice(vpNilKindCount()-2) // a nil pointer of every object-shaped type (all but Link)
	tn := vpNilOfKind(k)
	a, _ := vpC17Object(0)
	vpAssert("typed-nil-first/"+vpNilKindName(k), ItemOrderTimestamp(tn, a))
	vpAssert("typed-nil-not-after/"+vpNilKindName(k), !ItemOrderTimestamp(a, tn))
	vpAssert("typed-nil-vs-nil/"+vpNilKindName(k), !ItemOrderTimestamp(tn, nil) && !ItemOrderTimestamp(nil, tn))
	vpReach("end")
}

func vpC17Triple(ka, kb, kc int) {
	a, _ := vpC17Object(ka)
	b, _ := vpC17Object(kb)
	c, _ := vpC17Object(kc)
	ab := ItemOrderTimestamp(a, b)
	ba := ItemOrderTimestamp(b, a)
	bc := ItemOrderTimestamp(b, c)
	cb := ItemOrderTimestamp(c, b)
	ac := ItemOrderTimestamp(a, c)
	ca := ItemOrderTimestamp(c, a)
	if ab && bc {
		vpAssert("transitive", ac)
	}
	if !ab && !ba && !bc && !cb {
		vpAssert("incomparability-transitive", !ac && !ca)
	}
	vpReach("end")
}

func vpH_C17_triple()       { vpC17Triple(0, 0, 0) }
func vpT_C17_triple_mixed() { vpC17Triple(1, 2, 4) }

type vpByTimestamp ItemCollection

func (s vpByTimestamp) Len() int           { return len(s) }
func (s vpByTimestamp) Swap(i, j int)      { s[i], s[j] = s[j], s[i] }
func (s vpByTimestamp) Less(i, j int) bool { return ItemOrderTimestamp(s[i], s[j]) }

func vpC17Sort(n int) {
	items := make(ItemCollection, n)
	keys := map[Item]vpKey{}
	for i := range items {
		it, k := vpC17Object(0)
		items[i] = it
		keys[it] = k
	}
	sort.Sort(vpByTimestamp(items))
	for i := 0; i+1 < n; i++ {
		// newest first: key[i] >= key[i+1]
		vpAssert("sorted-newest-first", !vpKeyLess(keys[items[i]], keys[items[i+1]]))
	}
	vpReach("end")
}

func vpH_C17_sort3() { vpC17Sort(3) }
func vpT_C17_sort4() { vpC17Sort(4) }

func vpW_C17_twin() {
	a, _ := vpC17Object(0)
	_ = ItemOrderTimestamp(a, a)
	vpAssert("twin", false)
}
