package activitypub

import "time"

// C03 — gob / binary encode -> decode round trip preserves every vocabulary property.
// (Decided relative to the engine's model of encoding/gob: an opaque injective codec.)

var vpC03Times = []time.Time{
	time.Date(2020, 2, 29, 23, 59, 59, 123456789, time.UTC),
	time.Date(1969, 12, 31, 23, 59, 59, 1, time.FixedZone("X", 3*3600+1800)),
}

func vpC03Cell(ti int) {
	fields := vpFieldsOf(ti)
	f := vpChoice(len(fields))
	n := vpShapes(fields[f].Kind)
	if n == 0 {
		vpReach("end")
		return
	}
	shape := vpChoice(n)
	x := vpNew(ti)
	vpSetField(x, 0, 0, 'i')
	if f != 0 {
		vpSetField(x, f, shape, 'a')
	}
	cell := vpTypeNames[ti] + "." + fields[f].Name + "/" + string([]byte{'0' + byte(shape/10), '0' + byte(shape%10)})
	b, err := GobEncode(x)
	vpAssert("encode/no-error/"+cell, err == nil)
	vpAssert("encode/non-empty/"+cell, len(b) > 0)
	if len(b) == 0 {
		return
	}
	y, err := GobDecode(b)
	vpAssert("decode/no-error/"+cell, err == nil)
	vpAssert("decode/non-nil/"+cell, y != nil)
	if y == nil {
		return
	}
	vpDiffItems("roundtrip/"+cell, x, y, nil)
	// the value (non-pointer) form of the same value goes through other arms of the encoder's dispatch
	if v := vpValueOf(x); v != x {
		bv, err := GobEncode(v)
		vpAssert("value-form/encode/"+cell, err == nil && len(bv) > 0)
		if len(bv) > 0 {
			yv, err := GobDecode(bv)
			vpAssert("value-form/decode/"+cell, err == nil && yv != nil)
			if yv != nil {
				vpDiffItems("value-form/roundtrip/"+cell, x, yv, nil)
			}
		}
	}
	vpReach("end")
}

func vpH_C03_Object()                { vpC03Cell(vpTypeIndex("Object")) }
func vpH_C03_Actor()                 { vpC03Cell(vpTypeIndex("Actor")) }
func vpH_C03_Activity()              { vpC03Cell(vpTypeIndex("Activity")) }
func vpH_C03_IntransitiveActivity()  { vpC03Cell(vpTypeIndex("IntransitiveActivity")) }
func vpH_C03_Question()              { vpC03Cell(vpTypeIndex("Question")) }
func vpH_C03_Collection()            { vpC03Cell(vpTypeIndex("Collection")) }
func vpH_C03_CollectionPage()        { vpC03Cell(vpTypeIndex("CollectionPage")) }
func vpH_C03_OrderedCollection()     { vpC03Cell(vpTypeIndex("OrderedCollection")) }
func vpH_C03_OrderedCollectionPage() { vpC03Cell(vpTypeIndex("OrderedCollectionPage")) }
func vpH_C03_Place()                 { vpC03Cell(vpTypeIndex("Place")) }
func vpH_C03_Profile()               { vpC03Cell(vpTypeIndex("Profile")) }
func vpH_C03_Relationship()          { vpC03Cell(vpTypeIndex("Relationship")) }
func vpH_C03_Tombstone()             { vpC03Cell(vpTypeIndex("Tombstone")) }
func vpH_C03_Link()                  { vpC03Cell(vpTypeIndex("Link")) }

// lists with a repeated member, and natural-language lists with a repeated tag, come back member for member (the gob form promises nothing but the
// unset/empty normal form)
func vpH_C03_repeated_members() {
	ti := vpChoice(len(vpTypeNames))
	fields := vpFieldsOf(ti)
	f := vpChoice(len(fields))
	if fields[f].Kind != "Items" && fields[f].Kind != "NLV" {
		vpReach("end")
		return
	}
	shape := 14 + vpChoice(2)
	if fields[f].Kind == "NLV" {
		shape -= 11 // natural-language lists with a repeated tag (3) and with two untagged texts (4)
	}
	x := vpNew(ti)
	vpSetField(x, 0, 0, 'i')
	vpSetField(x, f, shape, 'a')
	cell := vpTypeNames[ti] + "." + fields[f].Name + "/" + string([]byte{'0' + byte(shape)})
	b, err := GobEncode(x)
	vpAssert("repeated/encode/"+cell, err == nil && len(b) > 0)
	if len(b) == 0 {
		return
	}
	y, err := GobDecode(b)
	vpAssert("repeated/decode/"+cell, err == nil && y != nil)
	if y == nil {
		return
	}
	vpDiffItems("repeated/roundtrip/"+cell, x, y, nil)
	vpReach("end")
}

func vpH_C03_degenerate() { vpC01Degenerate(1) }

// every type name of the vocabulary (not only the canonical one of each Go type) with one further
// property, through the package-level codec at top level and nested: the dispatch on names is complete
func vpH_C03_every_name() {
	c := vpVocabConsts[vpChoice(len(vpVocabConsts))]
	spec, ok := vpSpec[c.Value]
	if !ok {
		vpReach("end")
		return
	}
	ti := vpTypeIndex(spec.goType)
	fields := vpFieldsOf(ti)
	f := 2 + vpChoice(len(fields)-2)
	if vpShapes(fields[f].Kind) == 0 {
		vpReach("end")
		return
	}
	x := vpNew(ti)
	if l, ok := x.(*Link); ok {
		l.Type = c.Value
	} else {
		_ = OnObject(x, func(o *Object) error { o.Type = c.Value; return nil })
	}
	vpSetField(x, 0, 0, 'i')
	vpSetField(x, f, 0, 'a')
	cell := string(c.Value) + "." + fields[f].Name
	nested := vpBool()
	var enc Item = x
	if nested {
		enc = &Object{ID: "https://h.ex/outer", Type: NoteType, Icon: x}
		cell += "/nested"
	}
	b, err := GobEncode(enc)
	vpAssert("every-name/encode/"+cell, err == nil && len(b) > 0)
	if len(b) == 0 {
		return
	}
	y, err := GobDecode(b)
	vpAssert("every-name/decode/"+cell, err == nil && y != nil)
	if y == nil {
		return
	}
	if nested {
		o, ok := y.(*Object)
		vpAssert("every-name/outer/"+cell, ok && o != nil && o.Icon != nil)
		if !ok || o == nil || o.Icon == nil {
			return
		}
		y = o.Icon
	}
	vpDiffItems("every-name/roundtrip/"+cell, x, y, nil)
	vpReach("end")
}

// every field populated at once
func vpH_C03_all() {
	ti := vpChoice(len(vpTypeNames))
	x := vpPopulated(ti)
	b, err := GobEncode(x)
	vpAssert("all/encode/"+vpTypeNames[ti], err == nil && len(b) > 0)
	y, err := GobDecode(b)
	vpAssert("all/decode/"+vpTypeNames[ti], err == nil && y != nil)
	if y != nil {
		vpDiffItems("all/roundtrip/"+vpTypeNames[ti], x, y, nil)
	}
	vpReach("end")
}

// instants keep nanoseconds and denote the same moment; negative numbers and durations survive
func vpH_C03_special() {
	o := &Object{ID: vpMkIRI('i'), Type: NoteType}
	which := vpChoice(4)
	switch which {
	case 0:
		o.Published = vpC03Times[vpChoice(len(vpC03Times))]
	case 1:
		o.Updated = vpC03Times[vpChoice(len(vpC03Times))]
	case 2:
		o.Duration = -90 * time.Second
	case 3:
		o.Duration = 1500 * time.Millisecond
	}
	b, err := GobEncode(o)
	vpAssert("special/encode", err == nil && len(b) > 0)
	y, err := GobDecode(b)
	vpAssert("special/decode", err == nil && y != nil)
	if y != nil {
		p, ok := y.(*Object)
		vpAssert("special/type", ok)
		if ok {
			vpAssert("special/published", p.Published.Equal(o.Published) && p.Published.Nanosecond() == o.Published.Nanosecond())
			vpAssert("special/updated", p.Updated.Equal(o.Updated) && p.Updated.Nanosecond() == o.Updated.Nanosecond())
			vpAssert("special/duration", p.Duration == o.Duration)
		}
	}
	pl := &Place{ID: vpMkIRI('i'), Type: PlaceType, Latitude: -33.5, Longitude: -70.25, Altitude: -12, Radius: -vpInt(1, 99)}
	// whole numbers beyond the 53 bits a float64 carries exactly come back as they were (seed C03-18:
	// the radius sent through the float64 helper)
	switch vpChoice(5) {
	case 1:
		pl.Radius = 1<<53 + 1
	case 2:
		pl.Radius = -(1<<53 + 1)
	case 3:
		pl.Radius = 1<<63 - 1
	case 4:
		pl.Radius = -1 << 63
	}
	b, err = GobEncode(pl)
	vpAssert("special/place-encode", err == nil && len(b) > 0)
	y, err = GobDecode(b)
	vpAssert("special/place-decode", err == nil && y != nil)
	if y != nil {
		vpDiffItems("special/place", pl, y, nil)
	}
	vpReach("end")
}

// top-level values that are not vocabulary structs
func vpH_C03_toplevel() {
	var x Item
	switch vpChoice(4) {
	case 0:
		x = vpMkIRI('a')
	case 1:
		x = IRIs{vpMkIRI('a'), vpMkIRI('b')}
	case 2:
		x = ItemCollection{vpMkIRI('a'), &Object{ID: vpMkIRI('b'), Type: NoteType}}
	default:
		x = &Link{Type: MentionType, Href: vpMkIRI('h'), Name: vpMk_NLV(0, 'n')}
	}
	b, err := GobEncode(x)
	vpAssert("toplevel/encode", err == nil && len(b) > 0)
	y, err := GobDecode(b)
	vpAssert("toplevel/decode", err == nil && y != nil)
	if y != nil {
		vpAssert("toplevel/equal", vpEqItem(x, y))
	}
	vpReach("end")
}

type vpGobCodec interface {
	GobEncode() ([]byte, error)
}
type vpGobDecoder interface {
	GobDecode([]byte) error
}
type vpBinCodec interface {
	MarshalBinary() ([]byte, error)
}
type vpBinDecoder interface {
	UnmarshalBinary([]byte) error
}

// the per-type methods agree with the package-level functions
func vpH_C03_methods() {
	ti := vpChoice(len(vpTypeNames))
	x := vpNew(ti)
	vpSetField(x, 0, 0, 'i')
	vpSetField(x, 2, 0, 'n')
	name := vpTypeNames[ti]
	if vpBool() {
		enc, ok := x.(vpGobCodec)
		vpAssert("methods/has-GobEncode/"+name, ok)
		if ok {
			b, err := enc.GobEncode()
			vpAssert("methods/GobEncode/"+name, err == nil && len(b) > 0)
			y := vpNew(ti)
			dec, ok := y.(vpGobDecoder)
			vpAssert("methods/has-GobDecode/"+name, ok)
			if ok {
				vpAssert("methods/GobDecode/"+name, dec.GobDecode(b) == nil)
				vpDiffItems("methods/gob-roundtrip/"+name, x, y, nil)
			}
		}
	} else {
		enc, ok := x.(vpBinCodec)
		vpAssert("methods/has-MarshalBinary/"+name, ok)
		if ok {
			b, err := enc.MarshalBinary()
			vpAssert("methods/MarshalBinary/"+name, err == nil && len(b) > 0)
			y := vpNew(ti)
			dec, ok := y.(vpBinDecoder)
			vpAssert("methods/has-UnmarshalBinary/"+name, ok)
			if ok {
				vpAssert("methods/UnmarshalBinary/"+name, dec.UnmarshalBinary(b) == nil)
				vpDiffItems("methods/binary-roundtrip/"+name, x, y, nil)
			}
		}
	}
	vpReach("end")
}

func vpW_C03_twin() {
	x := &Object{ID: vpMkIRI('i'), Type: NoteType}
	b, _ := GobEncode(x)
	_, _ = GobDecode(b)
	vpAssert("twin", false)
}
