package activitypub

import (
	"time"
	"unicode/utf8"

	xsd "git.sr.ht/~mariusor/go-xsd-duration"
)

// C02 — emitted JSON is valid, unambiguous, injection-free and correctly termed.

type vpC02Case struct {
	name  string
	build func(s string) (x Item, path []string, names []string)
}

// each case places the hostile string s at one string-bearing position and says under which
// member path it must come back and which member names the top-level object may have
var vpC02Cases = []vpC02Case{
	{"Object.ID", func(s string) (Item, []string, []string) {
		return &Object{ID: IRI(s), Type: NoteType}, []string{"id"}, []string{"id", "type"}
	}},
	{"Object.ID-suffix", func(s string) (Item, []string, []string) {
		return &Object{ID: IRI("https://h.ex/" + s), Type: NoteType}, []string{"id"}, []string{"id", "type"}
	}},
	{"Object.Type", func(s string) (Item, []string, []string) {
		return &Object{ID: "https://h.ex/i", Type: ActivityVocabularyType(s)}, []string{"type"}, []string{"id", "type"}
	}},
	{"Object.MediaType", func(s string) (Item, []string, []string) {
		return &Object{ID: "https://h.ex/i", Type: NoteType, MediaType: MimeType(s)}, []string{"mediaType"}, []string{"id", "type", "mediaType"}
	}},
	{"Object.Name", func(s string) (Item, []string, []string) {
		return &Object{ID: "https://h.ex/i", Type: NoteType, Name: NaturalLanguageValues{{Ref: NilLangRef, Value: Content(s)}}}, []string{"name"}, []string{"id", "type", "name"}
	}},
	{"Object.NameMap-text", func(s string) (Item, []string, []string) {
		return &Object{ID: "https://h.ex/i", Type: NoteType, Name: NaturalLanguageValues{{Ref: "en", Value: Content(s)}, {Ref: "fr", Value: Content("x")}}}, []string{"nameMap", "en"}, []string{"id", "type", "nameMap"}
	}},
	{"Object.NameMap-tag", func(s string) (Item, []string, []string) {
		return &Object{ID: "https://h.ex/i", Type: NoteType, Name: NaturalLanguageValues{{Ref: LangRef(s), Value: Content("one")}, {Ref: "fr", Value: Content("un")}}}, []string{"nameMap", "\x00tag"}, []string{"id", "type", "nameMap"}
	}},
	{"Object.NameMap-tag-after-untagged", func(s string) (Item, []string, []string) {
		// an entry under the nil tag first: whatever the second tag is, no member name may repeat
		return &Object{ID: "https://h.ex/i", Type: NoteType, Name: NaturalLanguageValues{{Ref: NilLangRef, Value: Content("zero")}, {Ref: LangRef(s), Value: Content("one")}, {Ref: "fr", Value: Content("un")}}}, []string{"nameMap", "\x00tag"}, []string{"id", "type", "nameMap"}
	}},
	{"Object.NameMap-tag-after-empty-tag", func(s string) (Item, []string, []string) {
		return &Object{ID: "https://h.ex/i", Type: NoteType, Name: NaturalLanguageValues{{Ref: "", Value: Content("zero")}, {Ref: LangRef(s), Value: Content("one")}, {Ref: "fr", Value: Content("un")}}}, []string{"nameMap", "\x00tag"}, []string{"id", "type", "nameMap"}
	}},
	{"Object.SourceContentMap-tag", func(s string) (Item, []string, []string) {
		return &Object{ID: "https://h.ex/i", Type: NoteType, Source: Source{MediaType: "text/x", Content: NaturalLanguageValues{{Ref: "en", Value: Content("one")}, {Ref: LangRef(s), Value: Content("un")}}}}, []string{"source", "contentMap", "\x00tag"}, []string{"id", "type", "source"}
	}},
	{"Link.NameMap-tag", func(s string) (Item, []string, []string) {
		return &Link{Type: MentionType, Href: "https://h.ex/l", Name: NaturalLanguageValues{{Ref: LangRef(s), Value: Content("one")}, {Ref: "fr", Value: Content("un")}}}, []string{"nameMap", "\x00tag"}, []string{"type", "href", "nameMap"}
	}},
	{"Object.AttributedTo-IRI", func(s string) (Item, []string, []string) {
		return &Object{ID: "https://h.ex/i", Type: NoteType, AttributedTo: IRI("https://h.ex/" + s)}, []string{"attributedTo"}, []string{"id", "type", "attributedTo"}
	}},
	{"Object.To-IRI", func(s string) (Item, []string, []string) {
		return &Object{ID: "https://h.ex/i", Type: NoteType, To: ItemCollection{IRI("https://h.ex/" + s)}}, []string{"to", "0"}, []string{"id", "type", "to"}
	}},
	{"Object.Icon-embedded-id", func(s string) (Item, []string, []string) {
		return &Object{ID: "https://h.ex/i", Type: NoteType, Icon: &Object{ID: IRI("https://h.ex/" + s), Type: ImageType}}, []string{"icon", "id"}, []string{"id", "type", "icon"}
	}},
	{"Object.Source-content", func(s string) (Item, []string, []string) {
		return &Object{ID: "https://h.ex/i", Type: NoteType, Source: Source{Content: NaturalLanguageValues{{Ref: NilLangRef, Value: Content(s)}}, MediaType: "text/x"}}, []string{"source", "content"}, []string{"id", "type", "source"}
	}},
	{"Object.Source-mediaType", func(s string) (Item, []string, []string) {
		return &Object{ID: "https://h.ex/i", Type: NoteType, Source: Source{Content: NaturalLanguageValues{{Ref: NilLangRef, Value: Content("x")}}, MediaType: MimeType(s)}}, []string{"source", "mediaType"}, []string{"id", "type", "source"}
	}},
	{"Place.Units", func(s string) (Item, []string, []string) {
		return &Place{ID: "https://h.ex/i", Type: PlaceType, Units: s}, []string{"units"}, []string{"id", "type", "units"}
	}},
	{"Link.Href", func(s string) (Item, []string, []string) {
		return &Link{Type: MentionType, Href: IRI("https://h.ex/" + s)}, []string{"href"}, []string{"type", "href"}
	}},
	{"Link.HrefLang", func(s string) (Item, []string, []string) {
		return &Link{Type: MentionType, Href: "https://h.ex/l", HrefLang: LangRef(s)}, []string{"hrefLang"}, []string{"type", "href", "hrefLang"}
	}},
	{"Link.Rel", func(s string) (Item, []string, []string) {
		return &Link{Type: MentionType, Href: "https://h.ex/l", Rel: IRI(s)}, []string{"rel"}, []string{"type", "href", "rel"}
	}},
	{"Actor.PublicKeyPem", func(s string) (Item, []string, []string) {
		return &Actor{ID: "https://h.ex/i", Type: PersonType, PublicKey: PublicKey{ID: "https://h.ex/i#k", Owner: "https://h.ex/i", PublicKeyPem: s}}, []string{"publicKey", "publicKeyPem"}, []string{"id", "type", "publicKey"}
	}},
	{"Actor.PublicKey-owner", func(s string) (Item, []string, []string) {
		return &Actor{ID: "https://h.ex/i", Type: PersonType, PublicKey: PublicKey{ID: "https://h.ex/i#k", Owner: IRI("https://h.ex/" + s), PublicKeyPem: "k"}}, []string{"publicKey", "owner"}, []string{"id", "type", "publicKey"}
	}},
	{"Actor.PreferredUsername", func(s string) (Item, []string, []string) {
		return &Actor{ID: "https://h.ex/i", Type: PersonType, PreferredUsername: NaturalLanguageValues{{Ref: NilLangRef, Value: Content(s)}}}, []string{"preferredUsername"}, []string{"id", "type", "preferredUsername"}
	}},
	{"Tombstone.FormerType", func(s string) (Item, []string, []string) {
		return &Tombstone{ID: "https://h.ex/i", Type: TombstoneType, FormerType: ActivityVocabularyType(s)}, []string{"formerType"}, []string{"id", "type", "formerType"}
	}},
	{"Activity.Object-embedded-type", func(s string) (Item, []string, []string) {
		return &Activity{ID: "https://h.ex/i", Type: CreateType, Object: &Object{ID: "https://h.ex/o", Type: ActivityVocabularyType(s)}}, []string{"object", "type"}, []string{"id", "type", "object"}
	}},
}

var vpC02Prefixes = map[string]string{
	"Object.ID-suffix": "https://h.ex/", "Object.AttributedTo-IRI": "https://h.ex/", "Object.To-IRI": "https://h.ex/",
	"Object.Icon-embedded-id": "https://h.ex/", "Link.Href": "https://h.ex/", "Actor.PublicKey-owner": "https://h.ex/",
}

func vpC02Walk(v *vpJ, path []string) *vpJ {
	return vpC02WalkTag(v, path, "")
}

// vpC02WalkTag: the path element "\x00tag" stands for the member whose name is the hostile string.
func vpC02WalkTag(v *vpJ, path []string, tag string) *vpJ {
	for _, p := range path {
		if p == "\x00tag" {
			p = tag
		}
		if v == nil {
			return nil
		}
		if v.kind == 'a' {
			if p == "0" && len(v.elems) > 0 {
				v = v.elems[0]
				continue
			}
			return nil
		}
		v = v.get(p)
	}
	return v
}

func vpHasName(names []string, n string) bool {
	for _, x := range names {
		if x == n {
			return true
		}
	}
	return false
}

// vpUTF8Replaced: what a writer may emit for invalid UTF-8: the bytes themselves, or U+FFFD per bad byte.
func vpUTF8Replaced(s []byte) []byte {
	var out []byte
	for len(s) > 0 {
		r, n := utf8.DecodeRune(s)
		if r == utf8.RuneError && n == 1 {
			out = append(out, 0xEF, 0xBF, 0xBD)
		} else {
			out = append(out, s[:n]...)
		}
		s = s[n:]
	}
	return out
}

func vpC02Hostile(ci, n int) {
	c := vpC02Cases[ci]
	raw := vpBytes(n)
	s := string(raw)
	x, path, names := c.build(s)
	b, err := vpMarshalItem(x)
	vpAssert("marshal/no-error/"+c.name, err == nil)
	if len(b) == 0 {
		// nothing to say is allowed only when the string is empty
		vpAssert("marshal/empty-only-for-empty/"+c.name, n == 0)
		vpReach("end")
		return
	}
	doc, why := vpParseJSON(b)
	_ = why
	vpAssert("valid-json/"+c.name, doc != nil)
	if doc == nil {
		vpReach("end")
		return
	}
	vpAssert("is-object/"+c.name, doc.kind == 'o')
	for _, got := range doc.memberNames() {
		vpAssert("no-injected-member/"+c.name, vpHasName(names, got))
	}
	isTag := len(path) > 0 && path[len(path)-1] == "\x00tag"
	if isTag && n > 0 && utf8.Valid(raw) && s != "-" && s != "fr" && s != "en" {
		// the hostile string is a language tag: it must come back as the name of a member whose value is intact
		m := vpC02WalkTag(doc, path, s)
		vpAssert("tag-member-present/"+c.name, m != nil)
		if m != nil {
			vpAssert("tag-member-value/"+c.name, m.kind == 's' && (string(m.str) == "one" || string(m.str) == "un"))
		}
	} else if n > 0 && !isTag {
		m := vpC02Walk(doc, path)
		vpAssert("member-present/"+c.name, m != nil)
		if m != nil {
			vpAssert("member-is-string/"+c.name, m.kind == 's')
			want := []byte(vpC02Prefixes[c.name] + s)
			if utf8.Valid(raw) {
				vpAssert("string-decodes-to-original/"+c.name, vpBytesEq(m.str, want))
			} else {
				vpAssert("string-decodes-to-original-or-replaced/"+c.name, vpBytesEq(m.str, want) || vpBytesEq(m.str, vpUTF8Replaced(want)))
			}
		}
	}
	vpReach("end")
}

func vpH_C02_hostile1() { vpC02Hostile(vpChoice(len(vpC02Cases)), 1) }
func vpH_C02_hostile2() { vpC02Hostile(vpChoice(len(vpC02Cases)), 2) }
func vpT_C02_hostile3() { vpC02Hostile(vpChoice(len(vpC02Cases)), 3) }
func vpH_C02_hostile0() { vpC02Hostile(vpChoice(len(vpC02Cases)), 0) }

// every tagged field is written under its declared term, with the prescribed JSON kind
func vpC02Term(ti int) {
	fields := vpFieldsOf(ti)
	f := 2 + vpChoice(len(fields)-2)
	fi := fields[f]
	n := vpShapes(fi.Kind)
	if n == 0 {
		vpReach("end")
		return
	}
	shape := vpChoice(n)
	x := vpNew(ti)
	vpSetField(x, 0, 0, 'i')
	vpSymLeaves = false
	vpSetField(x, f, shape, 'a')
	vpSymLeaves = true
	cell := vpTypeNames[ti] + "." + fi.Name + "/" + string([]byte{'0' + byte(shape/10), '0' + byte(shape%10)})
	b, err := vpMarshalItem(x)
	vpAssert("term/marshal/"+cell, err == nil && len(b) > 0)
	doc, _ := vpParseJSON(b)
	vpAssert("term/valid-json/"+cell, doc != nil && doc.kind == 'o')
	if doc == nil {
		vpReach("end")
		return
	}
	term := fi.Term
	if fi.Kind == "NLV" && shape == 2 {
		term += "Map"
	}
	m := doc.get(term)
	vpAssert("term/under-declared-term/"+cell, m != nil)
	if m != nil {
		switch fi.Kind {
		case "Bool":
			vpAssert("kind/boolean-unquoted/"+cell, m.kind == 't' || m.kind == 'f')
		case "Uint", "Int", "Float":
			vpAssert("kind/number-unquoted/"+cell, m.kind == 'n')
		case "Time":
			ok := m.kind == 's'
			var parsed time.Time
			if ok {
				var perr error
				parsed, perr = time.Parse(time.RFC3339, string(m.str))
				ok = perr == nil
			}
			vpAssert("kind/instant-rfc3339/"+cell, ok)
			if ok {
				// ... and it names the instant the value holds, whatever zone that is kept in
				if want, isTime := vpFieldBox(x, f).(time.Time); isTime {
					vpAssert("kind/instant-is-the-same-moment/"+cell, parsed.Equal(want.Truncate(time.Second)))
				}
			}
		case "Duration":
			ok := m.kind == 's'
			if ok {
				var d time.Duration
				ok = xsd.Unmarshal(m.str, &d) == nil && len(m.str) > 1 && (m.str[0] == 'P' || (m.str[0] == '-' && m.str[1] == 'P'))
			}
			vpAssert("kind/duration-xsd/"+cell, ok)
		case "IRI", "Mime", "String", "LangRef":
			vpAssert("kind/string/"+cell, m.kind == 's')
		case "Items":
			// one member may be written as the member itself
			vpAssert("kind/array-or-single/"+cell, m.kind == 'a' || ((shape == 0 || shape == 3) && (m.kind == 's' || m.kind == 'o')))
		case "NLV":
			if shape == 2 {
				vpAssert("kind/language-map/"+cell, m.kind == 'o' && len(m.names) == 2)
			} else {
				vpAssert("kind/text-string/"+cell, m.kind == 's')
			}
		}
	}
	// no other member besides id, type and the term
	for _, got := range doc.memberNames() {
		ok := got == "id" || got == "type" || got == term
		if fi.Name == "TotalItems" || got == "totalItems" || got == "closed" {
			ok = true // always-written members of collections and questions
		}
		vpAssert("term/no-other-member/"+cell, ok)
	}
	vpReach("end")
}

func vpH_C02_term_Object()   { vpC02Term(vpTypeIndex("Object")) }
func vpH_C02_term_Actor()    { vpC02Term(vpTypeIndex("Actor")) }
func vpH_C02_term_Activity() { vpC02Term(vpTypeIndex("Activity")) }
func vpH_C02_term_others()   { vpC02Term(3 + vpChoice(len(vpTypeNames)-3)) }

// LISTS: entries that serialise to nothing (nil, typed nil, the empty IRI, an object with nothing set)
// at every position of a list-valued property, between entries that are written: the output stays
// valid JSON and holds exactly the written entries, in order.
var vpC02ListHolders = []string{"Object.To", "Object.Tag", "Activity.CC", "Collection.Items", "OrderedCollection.OrderedItems", "Actor.Streams", "Question.AnyOf", "ItemCollection"}

func vpC02Entry(k int, id string) Item {
	switch k {
	case 0:
		return IRI(id)
	case 1:
		return &Object{ID: IRI(id), Type: NoteType}
	case 2:
		return nil
	case 3:
		return (*Object)(nil)
	case 4:
		return IRI("")
	case 5:
		return &Object{}
	case 6:
		return &Link{Type: MentionType, Href: IRI(id)}
	case 8: // held by value
		return Place{ID: IRI(id), Type: PlaceType}
	case 9:
		return Object{ID: IRI(id), Type: NoteType}
	}
	return (*Activity)(nil)
}

func vpC02Written(k int) bool { return k == 0 || k == 1 || k == 6 || k == 8 || k == 9 }

func vpC02Lists(n int) {
	hi := vpChoice(len(vpC02ListHolders))
	holder := vpC02ListHolders[hi]
	var list ItemCollection
	var want []string
	for i := 0; i < n; i++ {
		k := vpChoice(10)
		id := "https://h.ex/" + string([]byte{'a' + byte(i), vpAlnum()})
		list = append(list, vpC02Entry(k, id))
		if vpC02Written(k) {
			want = append(want, id)
		}
	}
	var x Item
	term := ""
	switch hi {
	case 0:
		x, term = &Object{ID: "https://h.ex/i", Type: NoteType, To: list}, "to"
	case 1:
		x, term = &Object{ID: "https://h.ex/i", Type: NoteType, Tag: list}, "tag"
	case 2:
		x, term = &Activity{ID: "https://h.ex/i", Type: LikeType, CC: list}, "cc"
	case 3:
		x, term = &Collection{ID: "https://h.ex/i", Type: CollectionType, Items: list}, "items"
	case 4:
		x, term = &OrderedCollection{ID: "https://h.ex/i", Type: OrderedCollectionType, OrderedItems: list}, "orderedItems"
	case 5:
		x, term = &Actor{ID: "https://h.ex/i", Type: PersonType, Streams: list}, "streams"
	case 6:
		x, term = &Question{ID: "https://h.ex/i", Type: QuestionType, AnyOf: list}, "anyOf"
	default:
		x = list
	}
	b, err := vpMarshalItem(x)
	vpAssert("lists/no-error/"+holder, err == nil)
	if len(b) == 0 {
		vpAssert("lists/empty-only-for-nothing/"+holder, hi == 7 && len(want) == 0)
		vpReach("end")
		return
	}
	doc, _ := vpParseJSON(b)
	vpAssert("lists/valid-json/"+holder, doc != nil)
	if doc == nil {
		vpReach("end")
		return
	}
	m := doc
	if hi != 7 {
		vpAssert("lists/is-object/"+holder, doc.kind == 'o')
		m = doc.get(term)
	}
	if len(want) == 0 {
		vpAssert("lists/nothing-or-empty-array/"+holder, m == nil || (m.kind == 'a' && len(m.elems) == 0))
		vpReach("end")
		return
	}
	vpAssert("lists/member-present/"+holder, m != nil)
	if m == nil {
		vpReach("end")
		return
	}
	elems := []*vpJ{m}
	if m.kind == 'a' {
		elems = m.elems
	}
	vpAssert("lists/entry-count/"+holder, len(elems) == len(want))
	for i := 0; i < len(elems) && i < len(want); i++ {
		e := elems[i]
		var got []byte
		switch e.kind {
		case 's':
			got = e.str
		case 'o':
			if v := e.get("id"); v != nil && v.kind == 's' {
				got = v.str
			} else if v := e.get("href"); v != nil && v.kind == 's' {
				got = v.str
			}
		}
		vpAssert("lists/entry-in-order/"+holder, string(got) == want[i])
	}
	vpReach("end")
}

func vpH_C02_lists2() { vpC02Lists(2) }
func vpT_C02_lists3() { vpC02Lists(3) }

// single-item positions holding a value that serialises to nothing (an object with nothing set, an
// empty list, a nil pointer, the empty IRI): the holder is still one valid JSON object without a trace
// of the member
func vpH_C02_empty_items() {
	var v Item
	switch vpChoice(5) {
	case 0:
		v = &Object{}
	case 1:
		v = ItemCollection{}
	case 2:
		v = (*Object)(nil)
	case 3:
		v = IRI("")
	default:
		v = ItemCollection{&Object{}, nil}
	}
	var x Item
	term := ""
	switch vpChoice(14) {
	case 11: // the list-typed members allocated but empty, next to members that are written
		x, term = &Object{ID: "https://h.ex/i", Type: NoteType, Tag: ItemCollection{}, To: ItemCollection{IRI("https://h.ex/t")}, BCC: ItemCollection{}}, "tag"
	case 12:
		x, term = &OrderedCollection{ID: "https://h.ex/i", Type: OrderedCollectionType, OrderedItems: ItemCollection{}, CC: make(ItemCollection, 0, 4)}, "orderedItems"
	case 13:
		x, term = &Actor{ID: "https://h.ex/i", Type: PersonType, Streams: ItemCollection{}, To: ItemCollection{}, Inbox: IRI("https://h.ex/inbox")}, "streams"
	case 8: // the list-typed members, holding just the one member that has nothing to say
		x, term = &Actor{ID: "https://h.ex/i", Type: PersonType, Streams: ItemCollection{v}}, "streams"
	case 9:
		x, term = &Object{ID: "https://h.ex/i", Type: NoteType, To: ItemCollection{v}, BCC: ItemCollection{v}}, "to"
	case 10:
		x, term = &Activity{ID: "https://h.ex/i", Type: LikeType, CC: ItemCollection{v}, Bto: ItemCollection{v}}, "cc"
	case 0:
		x, term = &Object{ID: "https://h.ex/i", Type: NoteType, Attachment: v}, "attachment"
	case 1:
		x, term = &Object{ID: "https://h.ex/i", Type: NoteType, Icon: v, Name: NaturalLanguageValues{{Ref: NilLangRef, Value: Content("n")}}}, "icon"
	case 2:
		x, term = &Activity{ID: "https://h.ex/i", Type: LikeType, Object: v, Actor: IRI("https://h.ex/a")}, "object"
	case 3:
		x, term = &Activity{ID: "https://h.ex/i", Type: LikeType, Actor: v}, "actor"
	case 4:
		x, term = &Actor{ID: "https://h.ex/i", Type: PersonType, Inbox: v}, "inbox"
	case 5:
		x, term = &OrderedCollectionPage{ID: "https://h.ex/i", Type: OrderedCollectionPageType, Next: v, PartOf: IRI("https://h.ex/c")}, "next"
	case 6:
		x, term = &Question{ID: "https://h.ex/i", Type: QuestionType, OneOf: ItemCollection{}, Closed: true, Target: v}, "target"
	default:
		x, term = &Link{ID: "https://h.ex/i", Type: MentionType, Href: "https://h.ex/l", Preview: v}, "preview"
	}
	b, err := vpMarshalItem(x)
	vpAssert("empty-items/no-error/"+term, err == nil && len(b) > 0)
	if len(b) == 0 {
		vpReach("end")
		return
	}
	doc, _ := vpParseJSON(b)
	vpAssert("empty-items/valid-json/"+term, doc != nil && doc.kind == 'o')
	if doc != nil && doc.kind == 'o' {
		m := doc.get(term)
		vpAssert("empty-items/member-absent-or-empty/"+term, vpJEmptyish(m))
		vpAssert("empty-items/id-kept/"+term, doc.get("id") != nil)
	}
	vpReach("end")
}

// vpJEmptyish: absent, {} or a list of nothing but such values
func vpJEmptyish(m *vpJ) bool {
	if m == nil {
		return true
	}
	if m.kind == 'o' {
		return len(m.names) == 0
	}
	if m.kind != 'a' {
		return false
	}
	for _, e := range m.elems {
		if !vpJEmptyish(e) {
			return false
		}
	}
	return true
}

// strings longer than the symbolic ones with the characters the escaper treats specially (line and
// paragraph separators, astral code points, control characters, escape look-alikes) at every position
var vpC02Fixed = []string{"a\u2028b\u2029c", "x\U0001F600y", "q\"r\\s", "nl\ncr\rtab\t", "\x01\x1f\x7f", "\\u0041\\n", "</script><!--", "\u00e9\u20ac"}

func vpH_C02_fixed_strings() {
	c := vpC02Cases[vpChoice(len(vpC02Cases))]
	s := vpC02Fixed[vpChoice(len(vpC02Fixed))]
	x, path, names := c.build(s)
	if len(path) > 0 && path[len(path)-1] == "\x00tag" {
		vpReach("end")
		return
	}
	b, err := vpMarshalItem(x)
	vpAssert("fixed/no-error/"+c.name, err == nil && len(b) > 0)
	doc, _ := vpParseJSON(b)
	vpAssert("fixed/valid-json/"+c.name, doc != nil && doc.kind == 'o')
	if doc == nil || doc.kind != 'o' {
		vpReach("end")
		return
	}
	for _, got := range doc.memberNames() {
		vpAssert("fixed/no-injected-member/"+c.name, vpHasName(names, got))
	}
	m := vpC02Walk(doc, path)
	vpAssert("fixed/member-is-string/"+c.name, m != nil && m.kind == 's')
	if m != nil && m.kind == 's' {
		vpAssert("fixed/string-decodes-to-original/"+c.name, vpBytesEq(m.str, []byte(vpC02Prefixes[c.name]+s)))
	}
	vpReach("end")
}

// IRI lists (the IRIs type) with empty entries at every position, on their own and as a property value
func vpH_C02_iri_lists() {
	n := 2 + vpChoice(2)
	var list IRIs
	var want []string
	for i := 0; i < n; i++ {
		if vpBool() {
			id := "https://h.ex/" + string([]byte{'a' + byte(i), vpAlnum()})
			list = append(list, IRI(id))
			want = append(want, id)
		} else {
			list = append(list, IRI(""))
		}
	}
	var b []byte
	var err error
	term := ""
	if vpBool() {
		b, err = list.MarshalJSON()
	} else {
		term = "inReplyTo"
		b, err = vpMarshalItem(&Object{ID: "https://h.ex/i", Type: NoteType, InReplyTo: list})
	}
	vpAssert("iri-lists/no-error", err == nil)
	if len(b) == 0 {
		vpAssert("iri-lists/empty-only-for-nothing", len(want) == 0)
		vpReach("end")
		return
	}
	doc, _ := vpParseJSON(b)
	vpAssert("iri-lists/valid-json", doc != nil)
	if doc == nil {
		vpReach("end")
		return
	}
	m := doc
	if term != "" {
		m = doc.get(term)
	}
	if m != nil && m.kind == 'a' {
		k := 0
		for _, e := range m.elems {
			if e.kind == 's' && len(e.str) == 0 {
				continue // an empty string for an empty entry is still valid
			}
			vpAssert("iri-lists/entries-in-order", k < len(want) && e.kind == 's' && string(e.str) == want[k])
			k++
		}
		vpAssert("iri-lists/all-entries-written", k == len(want))
	} else if m != nil && m.kind == 's' {
		vpAssert("iri-lists/single-entry", len(want) == 1 && string(m.str) == want[0])
	} else {
		vpAssert("iri-lists/nothing-only-for-nothing", len(want) == 0)
	}
	vpReach("end")
}

func vpW_C02_twin() {
	x := &Object{ID: IRI(vpBytes(1)), Type: NoteType}
	b, _ := x.MarshalJSON()
	_, _ = vpParseJSON(b)
	vpAssert("twin", false)
}
