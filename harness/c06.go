package activitypub

import (
	"bytes"
	"unicode/utf8"
)

// C06 — natural-language text survives both codecs byte for byte.

var vpC06Props = []string{"name", "summary", "content", "preferredUsername", "source.content", "source.content-without-mediaType", "link.name", "summary-alone-in-embedded-object", "name-alone-in-embedded-object", "content-alone-in-embedded-object", "name-alone-at-top-level", "preferredUsername-alone-at-top-level", "link-name-alone-at-top-level"}

// vpC06Value builds the value holding text t at property p in form f
// (0 single untagged, 1 single tagged, 2 two-language map with t as the first text, 3 map with t as the second text,
// 4 map whose two tags differ only in letter case, 5 single with the tag left empty).
func vpC06Value(p, f int, t []byte) (Item, func(Item) NaturalLanguageValues) {
	var n NaturalLanguageValues
	switch f {
	case 0:
		n = NaturalLanguageValues{{Ref: NilLangRef, Value: Content(t)}}
	case 1:
		n = NaturalLanguageValues{{Ref: "en", Value: Content(t)}}
	case 2:
		n = NaturalLanguageValues{{Ref: "en", Value: Content(t)}, {Ref: "fr", Value: Content("autre")}}
	case 4: // tags that differ only in letter case are different tags
		n = NaturalLanguageValues{{Ref: "sr-Latn", Value: Content(t)}, {Ref: "sr-latn", Value: Content("autre")}}
	case 5: // a single text whose tag was left empty (not the "no language" tag)
		n = NaturalLanguageValues{{Value: Content(t)}}
	default:
		n = NaturalLanguageValues{{Ref: "en", Value: Content("other")}, {Ref: "fr", Value: Content(t)}}
	}
	switch p {
	case 0:
		return &Object{ID: "https://h.ex/i", Type: NoteType, Name: n}, func(y Item) NaturalLanguageValues { o, _ := ToObject(y); return o.Name }
	case 1:
		return &Object{ID: "https://h.ex/i", Type: NoteType, Summary: n}, func(y Item) NaturalLanguageValues { o, _ := ToObject(y); return o.Summary }
	case 2:
		return &Object{ID: "https://h.ex/i", Type: NoteType, Content: n}, func(y Item) NaturalLanguageValues { o, _ := ToObject(y); return o.Content }
	case 3:
		return &Actor{ID: "https://h.ex/i", Type: PersonType, PreferredUsername: n}, func(y Item) NaturalLanguageValues {
			a, _ := ToActor(y)
			return a.PreferredUsername
		}
	case 5:
		return &Object{ID: "https://h.ex/i", Type: NoteType, Source: Source{Content: n}}, func(y Item) NaturalLanguageValues { o, _ := ToObject(y); return o.Source.Content }
	case 10:
		// the text is everything the value says: no id, no type
		return &Object{Name: n}, func(y Item) NaturalLanguageValues {
			o, _ := ToObject(y)
			if o == nil {
				return nil
			}
			return o.Name
		}
	case 11:
		return &Actor{PreferredUsername: n}, func(y Item) NaturalLanguageValues {
			var out NaturalLanguageValues
			_ = OnActor(y, func(a *Actor) error { out = a.PreferredUsername; return nil })
			if out == nil {
				// a typeless document is an Object to the decoder: the text must still be there
				_ = OnObject(y, func(o *Object) error { return nil })
			}
			return out
		}
	case 12:
		return &Link{Name: n}, func(y Item) NaturalLanguageValues {
			if l, ok := y.(*Link); ok && l != nil {
				return l.Name
			}
			o, _ := ToObject(y)
			if o == nil {
				return nil
			}
			return o.Name
		}
	case 7, 8, 9:
		// the text is everything an embedded object says (no id, no type)
		in := &Object{}
		switch p {
		case 7:
			in.Summary = n
		case 8:
			in.Name = n
		default:
			in.Content = n
		}
		return &Object{ID: "https://h.ex/i", Type: NoteType, Tag: ItemCollection{IRI("https://h.ex/t"), in}}, func(y Item) NaturalLanguageValues {
			o, _ := ToObject(y)
			if o == nil || len(o.Tag) != 2 {
				return nil
			}
			e, _ := ToObject(o.Tag[1])
			if e == nil {
				return nil
			}
			switch p {
			case 7:
				return e.Summary
			case 8:
				return e.Name
			}
			return e.Content
		}
	case 6:
		return &Link{ID: "https://h.ex/i", Type: MentionType, Href: "https://h.ex/l", Name: n}, func(y Item) NaturalLanguageValues {
			l, _ := ToLink(y)
			if l == nil {
				return nil
			}
			return l.Name
		}
	default:
		return &Object{ID: "https://h.ex/i", Type: NoteType, Source: Source{Content: n, MediaType: "text/x"}}, func(y Item) NaturalLanguageValues { o, _ := ToObject(y); return o.Source.Content }
	}
}

func vpC06Check(cell string, codec int, x Item, get func(Item) NaturalLanguageValues, f int, t []byte) {
	var y Item
	var err error
	if a, ok := x.(*Actor); ok && len(a.Type) == 0 {
		// an actor that bears no type name cannot be recognised by the package-level decoders (they
		// dispatch on the name): it goes through the type's own methods
		var b []byte
		out := &Actor{}
		if codec == 0 {
			b, err = a.MarshalJSON()
			vpAssert("json/encode/"+cell, err == nil && len(b) > 0)
			err = out.UnmarshalJSON(b)
		} else {
			b, err = a.GobEncode()
			vpAssert("gob/encode/"+cell, err == nil && len(b) > 0)
			err = out.GobDecode(b)
		}
		y = out
	} else if codec == 0 {
		var b []byte
		b, err = vpMarshalItem(x)
		vpAssert("json/encode/"+cell, err == nil && len(b) > 0)
		y, err = UnmarshalJSON(b)
	} else {
		var b []byte
		b, err = GobEncode(x)
		vpAssert("gob/encode/"+cell, err == nil && len(b) > 0)
		y, err = GobDecode(b)
	}
	vpAssert("decode/"+cell, err == nil && y != nil)
	if y == nil {
		return
	}
	got := get(y)
	wantLen := 1
	if f >= 2 && f <= 4 {
		wantLen = 2
	}
	vpAssert("entries/"+cell, len(got) == wantLen)
	if len(got) != wantLen {
		return
	}
	idx := 0
	if f == 3 {
		idx = 1
	}
	vpAssert("text-bytes-equal/"+cell, bytes.Equal(got[idx].Value, t))
	if f == 4 {
		vpAssert("tags-preserved/"+cell, got[0].Ref == "sr-Latn" && got[1].Ref == "sr-latn")
		vpAssert("other-text-preserved/"+cell, string(got[1].Value) == "autre")
	} else if f >= 2 && f <= 4 {
		vpAssert("tags-preserved/"+cell, got[0].Ref == "en" && got[1].Ref == "fr")
		other := "autre"
		if f == 3 {
			other = "other"
		}
		vpAssert("other-text-preserved/"+cell, string(got[1-idx].Value) == other)
	} else if codec == 1 && f == 1 {
		// gob keeps the tag of a single value (only the unset/empty normal form applies)
		vpAssert("gob-single-tag-preserved/"+cell, got[0].Ref == "en")
	}
}

func vpC06Text(n int, full bool) {
	t := vpBytes(n)
	vpAssume(utf8.Valid(t))
	p, f, codec := 0, 0, 0
	if full {
		p = vpChoice(len(vpC06Props))
		f = vpChoice(6)
		codec = vpChoice(2)
	} else {
		// reduced matrix: name as single text and as map entry in JSON, source content in JSON, content in gob
		switch vpChoice(4) {
		case 1:
			f = 2
		case 2:
			p = 4
		case 3:
			p, codec = 2, 1
		}
	}
	x, get := vpC06Value(p, f, t)
	cell := vpC06Props[p] + "/form" + string([]byte{'0' + byte(f)}) + "/" + []string{"json", "gob"}[codec]
	vpC06Check(cell, codec, x, get, f, t)
	vpReach("end")
}

func vpH_C06_text1()      { vpC06Text(1, true) }
func vpH_C06_text2()      { vpC06Text(2, false) }
func vpT_C06_text2_full() { vpC06Text(2, true) }
func vpT_C06_text3()      { vpC06Text(3, false) }

// every type name a value can bear: the text-bearing properties of a holder of that name survive both
// codecs, at top level and embedded in another object (the decoders dispatch on the name)
func vpH_C06_type_names() {
	var names ActivityVocabularyTypes
	group := vpChoice(4)
	switch group {
	case 0:
		names = ObjectTypes
	case 1:
		names = ActorTypes
	case 2:
		names = ActivityTypes
	default:
		names = CollectionTypes
	}
	tn := names[vpChoice(len(names))]
	t := []byte{vpRange(0x20, 0x7e)}
	f := []int{0, 2}[vpChoice(2)]
	n := NaturalLanguageValues{{Ref: NilLangRef, Value: Content(t)}}
	if f == 2 {
		n = NaturalLanguageValues{{Ref: "en", Value: Content(t)}, {Ref: "fr", Value: Content("autre")}}
	}
	x, err := GetItemByType(tn)
	vpAssert("type-names/constructor/"+string(tn), err == nil && x != nil)
	if x == nil {
		return
	}
	prop := vpChoice(4)
	if prop == 3 && group != 1 {
		prop = 0
	}
	_ = OnObject(x, func(o *Object) error {
		o.ID = "https://h.ex/i"
		switch prop {
		case 0:
			o.Name = n
		case 1:
			o.Summary = n
		case 2:
			o.Content = n
		}
		return nil
	})
	if prop == 3 {
		_ = OnActor(x, func(a *Actor) error { a.PreferredUsername = n; return nil })
	}
	get := func(y Item) NaturalLanguageValues {
		var out NaturalLanguageValues
		if prop == 3 {
			_ = OnActor(y, func(a *Actor) error { out = a.PreferredUsername; return nil })
			return out
		}
		_ = OnObject(y, func(o *Object) error {
			switch prop {
			case 0:
				out = o.Name
			case 1:
				out = o.Summary
			default:
				out = o.Content
			}
			return nil
		})
		return out
	}
	codec := vpChoice(2)
	cell := "type-names/" + string(tn) + "/" + []string{"name", "summary", "content", "preferredUsername"}[prop] + "/" + []string{"json", "gob"}[codec]
	if vpBool() {
		vpC06Check(cell, codec, x, get, f, t)
	} else {
		holder := &Object{ID: "https://h.ex/o", Type: NoteType, AttributedTo: x}
		vpC06Check(cell+"/embedded", codec, holder, func(y Item) NaturalLanguageValues {
			var in Item
			_ = OnObject(y, func(o *Object) error { in = o.AttributedTo; return nil })
			if in == nil {
				return nil
			}
			return get(in)
		}, f, t)
	}
	vpReach("end")
}

// the text next to everything else: a holder with every property populated (a reader that stops
// early, or a property that shadows another, loses the text only then)
func vpH_C06_populated_holder() {
	tname := []string{"Object", "Actor", "Activity", "Question", "OrderedCollection", "Place"}[vpChoice(6)]
	x := vpPopulated(vpTypeIndex(tname))
	t := []byte{vpRange(0x20, 0x7e)}
	f := []int{0, 2}[vpChoice(2)]
	n := NaturalLanguageValues{{Ref: NilLangRef, Value: Content(t)}}
	if f == 2 {
		n = NaturalLanguageValues{{Ref: "en", Value: Content(t)}, {Ref: "fr", Value: Content("autre")}}
	}
	prop := vpChoice(5)
	if prop == 4 && tname != "Actor" {
		prop = 3
	}
	_ = OnObject(x, func(o *Object) error {
		switch prop {
		case 0:
			o.Name = n
		case 1:
			o.Summary = n
		case 2:
			o.Content = n
		case 3:
			o.Source.Content = n
		}
		return nil
	})
	if prop == 4 {
		_ = OnActor(x, func(a *Actor) error { a.PreferredUsername = n; return nil })
	}
	get := func(y Item) NaturalLanguageValues {
		var out NaturalLanguageValues
		if prop == 4 {
			_ = OnActor(y, func(a *Actor) error { out = a.PreferredUsername; return nil })
			return out
		}
		_ = OnObject(y, func(o *Object) error {
			switch prop {
			case 0:
				out = o.Name
			case 1:
				out = o.Summary
			case 2:
				out = o.Content
			default:
				out = o.Source.Content
			}
			return nil
		})
		return out
	}
	codec := vpChoice(2)
	cell := "populated-holder/" + tname + "/" + []string{"name", "summary", "content", "source.content", "preferredUsername"}[prop] + "/" + []string{"json", "gob"}[codec]
	vpC06Check(cell, codec, x, get, f, t)
	vpReach("end")
}

// texts that look like escape sequences: a backslash followed by any byte, inside other text
func vpH_C06_backslash() {
	c := vpByte()
	vpAssume(c < 0x80)
	t := []byte{'a', ' ', '\\', c, ' ', 'b'}
	p := vpChoice(len(vpC06Props))
	f := vpChoice(6)
	codec := vpChoice(2)
	x, get := vpC06Value(p, f, t)
	cell := "backslash/" + vpC06Props[p] + "/form" + string([]byte{'0' + byte(f)}) + "/" + []string{"json", "gob"}[codec]
	vpC06Check(cell, codec, x, get, f, t)
	vpReach("end")
}

// texts that are themselves JSON: numbers, literals, arrays, objects, quoted strings
func vpH_C06_jsonlike() {
	d := vpRange('0', '9')
	var t []byte
	switch vpChoice(8) {
	case 0:
		t = []byte{'4', d}
	case 1:
		t = []byte{d, 'e', d}
	case 2:
		t = []byte("true")
	case 3:
		t = []byte("null")
	case 4:
		t = []byte{'[', d, ']'}
	case 5:
		t = []byte{'{', '"', 'a', '"', ':', d, '}'}
	case 6:
		t = []byte{'"', 'q', d, '"'}
	default:
		t = []byte{'-', d, '.', d}
	}
	p := vpChoice(len(vpC06Props))
	f := vpChoice(6)
	codec := vpChoice(2)
	x, get := vpC06Value(p, f, t)
	cell := "jsonlike/" + vpC06Props[p] + "/form" + string([]byte{'0' + byte(f)}) + "/" + []string{"json", "gob"}[codec]
	vpC06Check(cell, codec, x, get, f, t)
	vpReach("end")
}

// astral code points and HTML
func vpH_C06_fixed() {
	texts := []string{"<p>Hi & \"you\"</p>", "line1\nline2\ttab\r", "\U0001F600 \u00e9 \u2028", "C:\\new\\table", "\\u0041 \\\\ \\\"", "\x7f\x01\x1f"}
	t := []byte(texts[vpChoice(len(texts))])
	p := vpChoice(len(vpC06Props))
	f := vpChoice(6)
	codec := vpChoice(2)
	x, get := vpC06Value(p, f, t)
	cell := "fixed/" + vpC06Props[p] + "/form" + string([]byte{'0' + byte(f)}) + "/" + []string{"json", "gob"}[codec]
	vpC06Check(cell, codec, x, get, f, t)
	vpReach("end")
}

// a text next to another text-bearing property that is present but says nothing (entries with empty
// texts, an allocated empty list): the text still survives, in both codecs
func vpH_C06_next_to_empty() {
	t := []byte{vpByte()}
	vpAssume(utf8.Valid(t))
	var empty NaturalLanguageValues
	switch vpChoice(4) {
	case 0:
		empty = NaturalLanguageValues{{Ref: "en", Value: Content{}}}
	case 1:
		empty = NaturalLanguageValues{{Ref: NilLangRef, Value: Content{}}}
	case 2:
		empty = NaturalLanguageValues{{Ref: "en", Value: Content{}}, {Ref: "fr", Value: nil}}
	default:
		empty = NaturalLanguageValues{}
	}
	n := NaturalLanguageValues{{Ref: NilLangRef, Value: Content(t)}}
	var x Item
	which := vpChoice(4)
	switch which {
	case 0:
		x = &Object{ID: "https://h.ex/i", Type: NoteType, Name: n, Content: empty}
	case 1:
		x = &Object{ID: "https://h.ex/i", Type: NoteType, Name: n, Summary: empty}
	case 2:
		x = &Object{ID: "https://h.ex/i", Type: NoteType, Summary: n, Name: empty}
	default:
		x = &Actor{ID: "https://h.ex/i", Type: PersonType, Name: n, PreferredUsername: empty}
	}
	get := func(y Item) NaturalLanguageValues {
		o, _ := ToObject(y)
		if o == nil {
			return nil
		}
		if which == 2 {
			return o.Summary
		}
		return o.Name
	}
	codec := vpChoice(2)
	cell := "next-to-empty/" + string([]byte{'0' + byte(which)}) + "/" + []string{"json", "gob"}[codec]
	vpC06Check(cell, codec, x, get, 0, t)
	vpReach("end")
}

func vpW_C06_twin() {
	x, _ := vpC06Value(0, 0, []byte{vpLower()})
	b, _ := vpMarshalItem(x)
	_, _ = UnmarshalJSON(b)
	vpAssert("twin", false)
}
