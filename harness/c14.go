package activitypub

// C14 — IRI equivalence is an equivalence relation with the documented insensitivities.
//
// An IRI is built from abstract components (scheme, host letter, port, path segments, query
// pairs) whose letters are symbolic, and a presentation (letter case, trailing slash, dot
// segments, fragment, order of the query pairs). Equivalence is known by construction from the
// abstract components, so the oracle never parses a string.

type vpIRIParts struct {
	scheme int    // 0 https, 1 http, 2 HTTPS, 3 ftp, 4 gemini
	host   byte   // one of a b A B
	port   int    // 0 none, 1 :80, 2 :81
	segs   []byte // each one of a b A B
	qk, qv []byte // query keys in [a-b], values in [0-1]
	// presentation
	trailing bool
	dot      int // 0 none, 1 "./" before the last segment, 2 "x/../" in front, 3 "//" in front
	frag     bool
	swapQ    bool
}

func vpLetterCase() byte {
	c := vpByte()
	vpAssume(vpABTab[c])
	return c
}

var vpABTab = func() (t [256]bool) {
	t['a'], t['b'], t['A'], t['B'] = true, true, true, true
	return
}()

func (p vpIRIParts) String() string {
	s := []string{"https", "http", "HTTPS", "ftp", "gemini"}[p.scheme] + "://" + string([]byte{p.host}) + ".ex" + []string{"", ":80", ":81"}[p.port]
	if p.dot == 2 {
		s += "/x/.."
	}
	if p.dot == 3 {
		s += "/"
	}
	for i, c := range p.segs {
		if p.dot == 1 && i == len(p.segs)-1 {
			s += "/."
		}
		s += "/" + string([]byte{c})
	}
	if p.trailing {
		s += "/"
	}
	n := len(p.qk)
	for i := 0; i < n; i++ {
		j := i
		if p.swapQ && n == 2 {
			j = 1 - i
		}
		if i == 0 {
			s += "?"
		} else {
			s += "&"
		}
		s += string([]byte{p.qk[j]}) + "=" + string([]byte{p.qv[j]})
	}
	if p.frag {
		s += "#f" + string([]byte{vpRange('0', '9')})
	}
	return s
}

func vpFold(c byte) byte { return c | 0x20 }

// vpAbstractEq is the oracle: same host (with port), same cleaned path ignoring case, same
// multiset of query pairs, and the same scheme (ignoring case) when asked.
func vpAbstractEq(a, b vpIRIParts, checkScheme bool) bool {
	cls := []int{0, 1, 0, 2, 3}
	if checkScheme && cls[a.scheme] != cls[b.scheme] {
		return false
	}
	if vpFold(a.host) != vpFold(b.host) || a.port != b.port {
		return false
	}
	if len(a.segs) != len(b.segs) {
		return false
	}
	for i := range a.segs {
		if vpFold(a.segs[i]) != vpFold(b.segs[i]) {
			return false
		}
	}
	if len(a.qk) != len(b.qk) {
		return false
	}
	switch len(a.qk) {
	case 1:
		return a.qk[0] == b.qk[0] && a.qv[0] == b.qv[0]
	case 2:
		same := a.qk[0] == b.qk[0] && a.qv[0] == b.qv[0] && a.qk[1] == b.qk[1] && a.qv[1] == b.qv[1]
		cross := a.qk[0] == b.qk[1] && a.qv[0] == b.qv[1] && a.qk[1] == b.qk[0] && a.qv[1] == b.qv[0]
		return same || cross
	}
	return true
}

func vpSegs(n int) []byte {
	s := make([]byte, n)
	for i := range s {
		s[i] = vpLetterCase()
	}
	return s
}

func vpQuery(n int) (k, v []byte) {
	k = make([]byte, n)
	v = make([]byte, n)
	for i := 0; i < n; i++ {
		k[i] = vpRange('a', 'b')
		v[i] = vpRange('0', '1')
	}
	return
}

func vpC14Laws(pa, pb vpIRIParts, checkScheme bool) {
	a, b := IRI(pa.String()), IRI(pb.String())
	want := vpAbstractEq(pa, pb, checkScheme)
	ab := a.Equals(b, checkScheme)
	ba := b.Equals(a, checkScheme)
	if want {
		vpAssert("equivalent-are-equal", ab)
	} else {
		vpAssert("inequivalent-are-unequal", !ab)
	}
	vpAssert("symmetric", ab == ba)
	vpAssert("reflexive", a.Equals(a, checkScheme))
	eq := a.Equals(b, false)
	vpAssert("contains-agrees", IRIs{b}.Contains(a) == eq)
	// ... wherever in the list the member stands
	other, other2 := IRI("https://zz.example/none"), IRI("urn:x:none")
	vpAssert("contains-agrees-second", IRIs{other, b}.Contains(a) == eq)
	vpAssert("contains-agrees-third", IRIs{other, other2, b}.Contains(a) == eq && IRIs{other, b, other2}.Contains(a) == eq)
	vpReach("end")
}

// path family: segments, trailing slash, dot segments
func vpH_C14_path() {
	pa := vpIRIParts{host: 'h', segs: vpSegs(vpChoice(3)), trailing: vpBool(), dot: vpChoice(4)}
	pb := vpIRIParts{host: 'h', segs: vpSegs(vpChoice(3)), trailing: vpBool()}
	vpC14Laws(pa, pb, true)
}

// absolute URLs of other schemes are compared like the http ones (trailing slash, dot segments, case
// of host and path; the scheme itself only when asked)
func vpH_C14_other_schemes() {
	pa := vpIRIParts{scheme: []int{3, 4, 0}[vpChoice(3)], host: vpLetterCase(), segs: vpSegs(1), trailing: vpBool(), dot: vpChoice(2)}
	pb := vpIRIParts{scheme: []int{3, 4, 1}[vpChoice(3)], host: 'a', segs: vpSegs(1), trailing: vpBool()}
	vpC14Laws(pa, pb, vpBool())
}

// host family: scheme, host case, port, with and without scheme comparison
func vpH_C14_host() {
	pa := vpIRIParts{scheme: vpChoice(3), host: vpLetterCase(), port: vpChoice(3), segs: []byte{'p'}}
	pb := vpIRIParts{scheme: vpChoice(3), host: vpLetterCase(), port: vpChoice(3), segs: []byte{'p'}, trailing: vpBool()}
	vpC14Laws(pa, pb, vpBool())
}

// query family: multisets of pairs, order, fragment
func vpH_C14_query() {
	ka, va := vpQuery(vpChoice(3))
	kb, vb := vpQuery(vpChoice(3))
	pa := vpIRIParts{host: 'h', segs: []byte{'p'}, qk: ka, qv: va, frag: vpBool()}
	pb := vpIRIParts{host: 'h', segs: []byte{'p'}, qk: kb, qv: vb, swapQ: vpBool()}
	vpC14Laws(pa, pb, false)
}

// transitivity on triples that differ in presentation and possibly in one letter
func vpH_C14_triple() {
	pa := vpIRIParts{host: vpLetterCase(), segs: vpSegs(1), trailing: vpBool()}
	pb := vpIRIParts{scheme: 1, host: vpLetterCase(), segs: vpSegs(1), frag: vpBool()}
	pc := vpIRIParts{scheme: 2, host: vpLetterCase(), segs: vpSegs(1), dot: vpChoice(2)}
	a, b, c := IRI(pa.String()), IRI(pb.String()), IRI(pc.String())
	if a.Equals(b, false) && b.Equals(c, false) {
		vpAssert("transitive", a.Equals(c, false))
	}
	vpReach("end")
}

// arbitrary byte strings: at least reflexive and symmetric
func vpC14Arb(n, m int) {
	a := IRI(vpBytes(n))
	b := IRI(vpBytes(m))
	cs := vpBool()
	vpAssert("arb-reflexive", a.Equals(a, cs))
	vpAssert("arb-symmetric", a.Equals(b, cs) == b.Equals(a, cs))
	vpAssert("arb-contains-agrees", IRIs{b}.Contains(a) == a.Equals(b, false))
	vpReach("end")
}

func vpH_C14_arb1() { vpC14Arb(vpChoice(2), vpChoice(2)) }

// (two and three arbitrary bytes against 0-2: the URL parser and the path cleaner split on almost every
// byte value; 15 minutes were not enough for 2x1 - not registered. The grid and the partial-URL families
// cover structured inputs; arbitrary strings are covered for 1x1 bytes.)

// an absolute URL against strings that are not absolute URLs but share its parts (scheme-relative,
// host-less, scheme-only, opaque): symmetric in both argument orders, and list membership agrees
func vpH_C14_partial() {
	h := string([]byte{vpLetterCase()})
	seg := string([]byte{vpLetterCase()})
	abs := IRI([]string{"http", "https", "HTTP"}[vpChoice(3)] + "://" + h + ".ex/" + seg)
	var other IRI
	switch vpChoice(12) {
	case 0:
		other = IRI("//" + h + ".ex/" + seg)
	case 1:
		other = IRI("/" + seg)
	case 2:
		other = IRI(h + ".ex/" + seg)
	case 3:
		other = IRI("http:/" + seg)
	case 4:
		other = IRI("http:" + h + ".ex/" + seg)
	case 5:
		other = IRI("mailto:" + seg + "@" + h + ".ex")
	case 6:
		other = IRI("://" + h + ".ex/" + seg)
	case 7:
		other = IRI("")
	case 9:
		other = IRI(seg + "doe")
	case 10:
		other = IRI("urn:isbn:" + seg)
	default:
		other = IRI("//" + h + ".ex/" + seg + "?k=v#f")
	}
	cs := vpBool()
	vpAssert("partial-symmetric", abs.Equals(other, cs) == other.Equals(abs, cs))
	vpAssert("partial-reflexive", other.Equals(other, cs) && abs.Equals(abs, cs))
	vpAssert("partial-contains-agrees", IRIs{other}.Contains(abs) == abs.Equals(other, false) && IRIs{abs}.Contains(other) == other.Equals(abs, false))
	// the same string with and without a fragment: whatever the answer, it is the same in both orders
	frag := IRI(string(other) + "#" + seg)
	vpAssert("partial-fragment-symmetric", other.Equals(frag, cs) == frag.Equals(other, cs))
	vpAssert("partial-fragment-contains-agrees", IRIs{other}.Contains(frag) == IRIs{frag}.Contains(other))
	vpReach("end")
}

// IRIs that carry another URL inside (a redirect target in the query, a proxied URL in the path):
// everything left of the inner "://" still counts
func vpH_C14_embedded_url() {
	h1, h2 := vpLetterCase(), vpLetterCase()
	s1, s2 := vpLetterCase(), vpLetterCase()
	inner := []string{"?to=https://x.ex/q", "/https://x.ex/q", "?a=1&to=http://x.ex/"}[vpChoice(3)]
	a := IRI("https://" + string([]byte{h1}) + ".ex/" + string([]byte{s1}) + inner)
	b := IRI([]string{"https", "http"}[vpChoice(2)] + "://" + string([]byte{h2}) + ".ex/" + string([]byte{s2}) + inner)
	same := vpFold(h1) == vpFold(h2) && vpFold(s1) == vpFold(s2)
	cs := vpBool()
	if !same {
		vpAssert("embedded/different-outer-parts-unequal", !a.Equals(b, cs) && !b.Equals(a, cs))
		vpAssert("embedded/contains-agrees", !IRIs{a}.Contains(b) && !IRIs{b}.Contains(a))
	} else if !cs {
		vpAssert("embedded/same-outer-parts-equal", a.Equals(b, false) && b.Equals(a, false))
	}
	vpAssert("embedded/reflexive", a.Equals(a, cs) && b.Equals(b, cs))
	vpReach("end")
}

// thorough: the families varied together, two at a time (all three together, even on one segment and one
// query pair per side, did not finish in 15 minutes: 186 000 paths explored when it was stopped)
func vpT_C14_path_host() {
	// (two segments per side, or all four dot forms, did not finish in 15 minutes)
	pa := vpIRIParts{scheme: vpChoice(3), host: vpLetterCase(), port: vpChoice(2), segs: vpSegs(vpChoice(2)), trailing: vpBool(), dot: vpChoice(2)}
	pb := vpIRIParts{scheme: vpChoice(2), host: vpLetterCase(), port: vpChoice(2), segs: vpSegs(vpChoice(2)), trailing: vpBool()}
	vpC14Laws(pa, pb, vpBool())
}

func vpT_C14_path_query() {
	ka, va := vpQuery(vpChoice(3))
	kb, vb := vpQuery(vpChoice(3))
	pa := vpIRIParts{host: 'h', segs: vpSegs(vpChoice(2)), trailing: vpBool(), dot: vpChoice(4), qk: ka, qv: va, frag: vpBool()}
	pb := vpIRIParts{host: 'h', segs: vpSegs(vpChoice(2)), trailing: vpBool(), qk: kb, qv: vb, swapQ: vpBool()}
	vpC14Laws(pa, pb, true)
}

func vpT_C14_host_query() {
	ka, va := vpQuery(vpChoice(2))
	kb, vb := vpQuery(vpChoice(2))
	pa := vpIRIParts{scheme: vpChoice(3), host: vpLetterCase(), port: vpChoice(2), segs: []byte{'p'}, qk: ka, qv: va, frag: vpBool()}
	pb := vpIRIParts{scheme: vpChoice(2), host: vpLetterCase(), port: vpChoice(2), segs: []byte{'p'}, trailing: vpBool(), qk: kb, qv: vb}
	vpC14Laws(pa, pb, vpBool())
}

func vpW_C14_twin() {
	pa := vpIRIParts{host: vpLetterCase(), segs: vpSegs(1)}
	_ = IRI(pa.String()).Equals("https://a.ex/a", true)
	vpAssert("twin", false)
}
