package activitypub

import (
	"strconv"
	"time"
)

// vpDocWriter — an independent writer of ActivityStreams documents, used to produce decoder
// inputs from a model value without going through the library's encoders.
// variant: 0 canonical; 1 one-member lists written as the bare member / single values written as
// one-element arrays; 2 single language values written as a one-entry language map.

type vpDocWriter struct {
	b []byte
	n int
}

func (w *vpDocWriter) member(name string, val []byte) {
	if w.n == 0 {
		w.b = append(w.b, '{')
	} else {
		w.b = append(w.b, ',')
	}
	w.n++
	w.b = append(w.b, vpDocString(name)...)
	w.b = append(w.b, ':')
	w.b = append(w.b, val...)
}

func (w *vpDocWriter) done() []byte {
	if w.n == 0 {
		return []byte("{}")
	}
	return append(w.b, '}')
}

// vpDocString writes a JSON string (escaping quote, backslash and control characters).
func vpDocString(s string) []byte {
	const hexd = "0123456789abcdef"
	out := []byte{'"'}
	for i := 0; i < len(s); i++ {
		c := s[i]
		switch {
		case c == '"' || c == '\\':
			out = append(out, '\\', c)
		case c < 0x20:
			out = append(out, '\\', 'u', '0', '0', hexd[c>>4], hexd[c&0xF])
		default:
			out = append(out, c)
		}
	}
	return append(out, '"')
}

// vpDocValue writes an item that is not a vocabulary struct: IRI, lists.
func vpDocValue(it Item, variant int) []byte {
	switch x := it.(type) {
	case nil:
		return []byte("null")
	case IRI:
		return vpDocString(string(x))
	case ItemCollection:
		return vpDocList(x, variant)
	case IRIs:
		out := []byte{'['}
		for i, e := range x {
			if i > 0 {
				out = append(out, ',')
			}
			out = append(out, vpDocString(string(e))...)
		}
		return append(out, ']')
	}
	return []byte("null")
}

func vpDocList(col ItemCollection, variant int) []byte {
	if variant == 1 && len(col) == 1 {
		return vpDocOf(col[0], 0)
	}
	out := []byte{'['}
	for i, e := range col {
		if i > 0 {
			out = append(out, ',')
		}
		out = append(out, vpDocOf(e, 0)...)
	}
	return append(out, ']')
}

func vpDocMember_IRI(w *vpDocWriter, term string, v IRI, variant int) {
	w.member(term, vpDocString(string(v)))
}
func vpDocMember_Type(w *vpDocWriter, term string, v ActivityVocabularyType, variant int) {
	w.member(term, vpDocString(string(v)))
}
func vpDocMember_TypeName(w *vpDocWriter, term string, v ActivityVocabularyType, variant int) {
	w.member(term, vpDocString(string(v)))
}
func vpDocMember_Mime(w *vpDocWriter, term string, v MimeType, variant int) {
	w.member(term, vpDocString(string(v)))
}
func vpDocMember_String(w *vpDocWriter, term string, v string, variant int) {
	w.member(term, vpDocString(v))
}
func vpDocMember_LangRef(w *vpDocWriter, term string, v LangRef, variant int) {
	w.member(term, vpDocString(string(v)))
}

func vpDocNLV(n NaturalLanguageValues, variant int) (suffix string, val []byte) {
	if len(n) == 1 && variant != 2 {
		return "", vpDocString(string(n[0].Value))
	}
	if len(n) == 1 && n[0].Ref == NilLangRef {
		return "", vpDocString(string(n[0].Value))
	}
	out := []byte{'{'}
	for i, e := range n {
		if i > 0 {
			out = append(out, ',')
		}
		out = append(out, vpDocString(string(e.Ref))...)
		out = append(out, ':')
		out = append(out, vpDocString(string(e.Value))...)
	}
	return "Map", append(out, '}')
}

func vpDocMember_NLV(w *vpDocWriter, term string, v NaturalLanguageValues, variant int) {
	suffix, val := vpDocNLV(v, variant)
	w.member(term+suffix, val)
}

func vpDocMember_Item(w *vpDocWriter, term string, v Item, variant int) {
	if variant == 1 {
		if _, isList := v.(ItemCollection); !isList {
			// a single value may be written as a one-element array
			w.member(term, append(append([]byte{'['}, vpDocOf(v, 0)...), ']'))
			return
		}
	}
	w.member(term, vpDocOf(v, variant))
}

func vpDocMember_Items(w *vpDocWriter, term string, v ItemCollection, variant int) {
	w.member(term, vpDocList(v, variant))
}

func vpDocMember_Time(w *vpDocWriter, term string, v time.Time, variant int) {
	w.member(term, vpDocString(v.UTC().Format("2006-01-02T15:04:05Z07:00")))
}

func vpDocMember_Duration(w *vpDocWriter, term string, v time.Duration, variant int) {
	// the generated durations, written as xsd:duration by hand (whole days also in their hour form:
	// the same duration, another legal spelling)
	s := "PT0S"
	switch v {
	case 72 * time.Hour:
		s = []string{"P3D", "PT72H", "P3DT0S"}[variant%3]
	case 24 * time.Hour:
		s = []string{"P1D", "PT24H", "P1DT0H"}[variant%3]
	case 240 * time.Hour:
		s = "P10D"
	case -48 * time.Hour:
		s = []string{"-P2D", "-PT48H", "-P2D"}[variant%3]
	case 90 * time.Second:
		s = "PT1M30S"
	case time.Hour:
		s = "PT1H"
	case 25 * time.Hour:
		s = "P1DT1H"
	}
	w.member(term, vpDocString(s))
}

func vpDocMember_Source(w *vpDocWriter, term string, v Source, variant int) {
	sw := &vpDocWriter{}
	if len(v.Content) > 0 {
		suffix, val := vpDocNLV(v.Content, variant)
		sw.member("content"+suffix, val)
	}
	if len(v.MediaType) > 0 {
		sw.member("mediaType", vpDocString(string(v.MediaType)))
	}
	w.member(term, sw.done())
}

func vpDocMember_Uint(w *vpDocWriter, term string, v uint, variant int) {
	w.member(term, []byte(strconv.FormatUint(uint64(v), 10)))
}
func vpDocMember_Int(w *vpDocWriter, term string, v int64, variant int) {
	w.member(term, []byte(strconv.FormatInt(v, 10)))
}
func vpDocMember_Float(w *vpDocWriter, term string, v float64, variant int) {
	w.member(term, []byte(strconv.FormatFloat(v, 'f', -1, 64)))
}
func vpDocMember_Bool(w *vpDocWriter, term string, v bool, variant int) {
	if v {
		w.member(term, []byte("true"))
	} else {
		w.member(term, []byte("false"))
	}
}

func vpDocMember_PublicKey(w *vpDocWriter, term string, v PublicKey, variant int) {
	sw := &vpDocWriter{}
	if len(v.ID) > 0 {
		sw.member("id", vpDocString(string(v.ID)))
	}
	if len(v.Owner) > 0 {
		sw.member("owner", vpDocString(string(v.Owner)))
	}
	if len(v.PublicKeyPem) > 0 {
		sw.member("publicKeyPem", vpDocString(v.PublicKeyPem))
	}
	w.member(term, sw.done())
}

func vpDocMember_Endpoints(w *vpDocWriter, term string, v *Endpoints, variant int) {
	w.member(term, vpDoc_Endpoints(v, 0))
}

func vpDocMember_Unknown(w *vpDocWriter, term string, v any, variant int) {}
