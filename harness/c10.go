package activitypub

// C10 — recipient computation de-duplicates without losing or inventing addressees.

type vpAddr struct {
	item  Item
	key   byte // lower-case letter identifying the addressee (scheme, case, trailing slash ignored)
	isNil bool
}

var vpABCTab = func() (t [256]bool) {
	for _, c := range "abcABC" {
		t[c] = true
	}
	return
}()

// vpAddressee builds one addressee; variant selects the presentation.
func vpAddressee(variant int) vpAddr {
	c := vpByte()
	vpAssume(vpABCTab[c])
	letter := string([]byte{c})
	var id IRI
	switch variant {
	case 0, 3, 4:
		id = IRI("https://h.ex/" + letter)
	case 1:
		id = IRI("http://h.ex/" + letter)
	default:
		id = IRI("https://h.ex/" + letter + "/")
	}
	a := vpAddr{key: c | 0x20}
	switch variant {
	case 3:
		a.item = &Actor{ID: id, Type: PersonType}
	case 4:
		a.item = &Object{ID: id, Type: NoteType}
	default:
		a.item = id
	}
	return a
}

// vpKeyOfIRI extracts the addressee key from an id of the shapes above.
func vpKeyOfIRI(i IRI) (byte, bool) {
	if i == PublicNS {
		return '*', true
	}
	s := string(i)
	for p := 0; p+3 <= len(s); p++ {
		if s[p] == ':' && s[p+1] == '/' && s[p+2] == '/' {
			rest := s[p+3:]
			if len(rest) >= 6 && rest[:5] == "h.ex/" {
				return rest[5] | 0x20, true
			}
			return 0, false
		}
	}
	return 0, false
}

// addressees whose id has no path at all: https://a.ex, http://a.ex/ and https://A.ex/ name the same one
func vpH_C10_host_only() {
	c1, c2 := vpByte(), vpByte()
	vpAssume(vpABCTab[c1] && vpABCTab[c2])
	form := func(c byte, v int) IRI {
		h := string([]byte{c}) + ".ex"
		switch v {
		case 0:
			return IRI("https://" + h)
		case 1:
			return IRI("http://" + h + "/")
		}
		return IRI("https://" + h + "/")
	}
	a, b := form(c1, vpChoice(3)), form(c2, vpChoice(3))
	same := c1|0x20 == c2|0x20
	var to, cc *ItemCollection
	var recipients func() ItemCollection
	if vpBool() {
		x := &Object{ID: "https://self.ex/o", Type: NoteType, To: ItemCollection{a}, CC: ItemCollection{b}}
		to, cc, recipients = &x.To, &x.CC, x.Recipients
	} else {
		x := &Activity{ID: "https://self.ex/o", Type: CreateType, To: ItemCollection{a}, CC: ItemCollection{b}}
		to, cc, recipients = &x.To, &x.CC, x.Recipients
	}
	r := recipients()
	vpAssert("host-only/first-mention-kept", len(*to) == 1 && (*to)[0] == Item(a))
	if same {
		vpAssert("host-only/named-once", len(r) == 1 && r[0] == Item(a))
		vpAssert("host-only/later-mention-removed", len(*cc) == 0)
	} else {
		vpAssert("host-only/both-named", len(r) == 2 && r[0] == Item(a) && r[1] == Item(b))
		vpAssert("host-only/both-kept", len(*cc) == 1 && (*cc)[0] == Item(b))
	}
	vpReach("end")
}

type vpRecipTarget struct {
	to, cc, bto, bcc, aud *ItemCollection
	actor                 *Item
	recipients            func() ItemCollection
}

func vpC10Target(ti int) vpRecipTarget {
	switch ti {
	case 0:
		x := &Object{ID: "https://h.ex/self", Type: NoteType}
		return vpRecipTarget{&x.To, &x.CC, &x.Bto, &x.BCC, &x.Audience, nil, x.Recipients}
	case 1:
		// the sender of a transitive activity, and what it is attributed to or about, are not addressees:
		// decoys there must not show up
		x := &Activity{ID: "https://h.ex/self", Type: CreateType, Actor: IRI("https://h.ex/decoy0"), AttributedTo: IRI("https://h.ex/decoy"), Object: IRI("https://h.ex/decoy2")}
		return vpRecipTarget{&x.To, &x.CC, &x.Bto, &x.BCC, &x.Audience, nil, x.Recipients}
	case 2:
		x := &IntransitiveActivity{ID: "https://h.ex/self", Type: ArriveType, AttributedTo: IRI("https://h.ex/decoy"), Target: IRI("https://h.ex/decoy2")}
		var act Item
		r := vpRecipTarget{&x.To, &x.CC, &x.Bto, &x.BCC, &x.Audience, &act, nil}
		r.recipients = func() ItemCollection {
			if act != nil {
				x.Actor = act
			}
			return x.Recipients()
		}
		return r
	case 3:
		x := &Question{ID: "https://h.ex/self", Type: QuestionType, AttributedTo: IRI("https://h.ex/decoy"), Target: IRI("https://h.ex/decoy2")}
		var act Item
		r := vpRecipTarget{&x.To, &x.CC, &x.Bto, &x.BCC, &x.Audience, &act, nil}
		r.recipients = func() ItemCollection {
			if act != nil {
				x.Actor = act
			}
			return x.Recipients()
		}
		return r
	case 4:
		x := &Actor{ID: "https://h.ex/self", Type: PersonType}
		return vpRecipTarget{&x.To, &x.CC, &x.Bto, &x.BCC, &x.Audience, nil, x.Recipients}
	case 5:
		x := &Collection{ID: "https://h.ex/self", Type: CollectionType}
		return vpRecipTarget{&x.To, &x.CC, &x.Bto, &x.BCC, &x.Audience, nil, x.Recipients}
	case 6:
		x := &OrderedCollectionPage{ID: "https://h.ex/self", Type: OrderedCollectionPageType}
		return vpRecipTarget{&x.To, &x.CC, &x.Bto, &x.BCC, &x.Audience, nil, x.Recipients}
	case 7:
		x := &Place{ID: "https://h.ex/self", Type: PlaceType}
		return vpRecipTarget{&x.To, &x.CC, &x.Bto, &x.BCC, &x.Audience, nil, x.Recipients}
	case 8:
		x := &Tombstone{ID: "https://h.ex/self", Type: TombstoneType}
		return vpRecipTarget{&x.To, &x.CC, &x.Bto, &x.BCC, &x.Audience, nil, x.Recipients}
	case 9:
		x := &Profile{ID: "https://h.ex/self", Type: ProfileType}
		return vpRecipTarget{&x.To, &x.CC, &x.Bto, &x.BCC, &x.Audience, nil, x.Recipients}
	case 10:
		x := &Relationship{ID: "https://h.ex/self", Type: RelationshipType}
		return vpRecipTarget{&x.To, &x.CC, &x.Bto, &x.BCC, &x.Audience, nil, x.Recipients}
	case 11:
		x := &CollectionPage{ID: "https://h.ex/self", Type: CollectionPageType}
		return vpRecipTarget{&x.To, &x.CC, &x.Bto, &x.BCC, &x.Audience, nil, x.Recipients}
	default:
		x := &OrderedCollection{ID: "https://h.ex/self", Type: OrderedCollectionType}
		return vpRecipTarget{&x.To, &x.CC, &x.Bto, &x.BCC, &x.Audience, nil, x.Recipients}
	}
}

const vpC10Targets = 13

// vpC10Run distributes the addressees over the lists (slot 0..4 = to, cc, bto, bcc, audience;
// 5 = actor when the type has one) and checks the result against the reference.
func vpC10Run(t vpRecipTarget, addrs []vpAddr, slots []int) {
	lists := []*ItemCollection{t.to, t.cc, t.bto, t.bcc, t.aud}
	// scan order of the property: to, cc, bto, bcc, actor, audience
	type mention struct {
		slot, idx int
		a         vpAddr
	}
	var perSlot [6][]vpAddr
	for i, a := range addrs {
		s := slots[i]
		if s == 5 {
			if t.actor == nil || *t.actor != nil || a.isNil {
				s = 0
			} else {
				*t.actor = a.item
				perSlot[5] = append(perSlot[5], a)
				continue
			}
		}
		*lists[s] = append(*lists[s], a.item)
		perSlot[s] = append(perSlot[s], a)
	}
	// reference: first mentions in scan order
	var seen []byte
	has := func(k byte) bool {
		for _, s := range seen {
			if s == k {
				return true
			}
		}
		return false
	}
	var wantResult []byte
	var wantLists [4][]vpAddr
	for _, s := range []int{0, 1, 2, 3, 5, 4} {
		for _, a := range perSlot[s] {
			if a.isNil {
				if s < 4 {
					wantLists[s] = append(wantLists[s], a)
				}
				continue
			}
			if has(a.key) {
				continue
			}
			seen = append(seen, a.key)
			wantResult = append(wantResult, a.key)
			if s < 4 {
				wantLists[s] = append(wantLists[s], a)
			}
		}
	}
	got := t.recipients()
	vpAssert("result/count", len(got) == len(wantResult))
	if len(got) == len(wantResult) {
		for i, k := range wantResult {
			gk, ok := vpKeyOfIRI(got[i].GetLink())
			vpAssert("result/order-and-identity", ok && gk == k)
		}
	}
	for s := 0; s < 4; s++ {
		l := *lists[s]
		vpAssert("lists/length", len(l) == len(wantLists[s]))
		if len(l) != len(wantLists[s]) {
			continue
		}
		for i, w := range wantLists[s] {
			if w.isNil {
				// entries that identify nobody (nil, a link without an id) stay where and what they were
				vpAssert("lists/nil-kept", l[i] == w.item)
			} else {
				vpAssert("lists/first-mention-kept", l[i] == w.item)
			}
		}
	}
	vpReach("end")
}

func vpH_C10_place() {
	t := vpC10Target(2 * vpChoice(2))
	addrs := []vpAddr{vpAddressee(0), vpAddressee(1), vpAddressee(2)}
	vpC10Run(t, addrs, []int{0, vpChoice(6), vpChoice(6)})
}

func vpH_C10_variants() {
	t := vpC10Target(1)
	addrs := []vpAddr{vpAddressee(0), vpAddressee(vpChoice(5)), vpAddressee(vpChoice(5))}
	vpC10Run(t, addrs, []int{0, 1, 0})
}

// the types that have an actor: it is an addressee (scanned after bcc, before audience), and nothing
// else the value points at (attributedTo, object, target) is
func vpH_C10_actor_types() {
	t := vpC10Target(2 + vpChoice(2)) // the intransitive ones: there the actor is addressed
	addrs := []vpAddr{vpAddressee(0), vpAddressee(1), vpAddressee(2)}
	vpC10Run(t, addrs, []int{5, vpChoice(6), []int{0, 4}[vpChoice(2)]})
}

func vpT_C10_three() {
	t := vpC10Target(vpChoice(4))
	addrs := []vpAddr{vpAddressee(0), vpAddressee(vpChoice(5)), vpAddressee(vpChoice(3))}
	vpC10Run(t, addrs, []int{0, vpChoice(6), vpChoice(6)})
}

func vpH_C10_types() {
	t := vpC10Target(4 + vpChoice(vpC10Targets-4))
	addrs := []vpAddr{vpAddressee(1), vpAddressee(2), vpAddressee(3)}
	vpC10Run(t, addrs, []int{vpChoice(2), vpChoice(5), 3})
}

func vpH_C10_nil_entries() {
	t := vpC10Target(vpChoice(2))
	// the second anonymous entry is nil or an embedded link that has no id (only a target): neither names
	// an addressee, both are left alone - and two such links are not "the same addressee"
	var anon1, anon2 Item
	if vpBool() {
		anon1 = &Link{Type: MentionType, Href: "https://h.ex/l1"}
		anon2 = &Link{Type: MentionType, Href: "https://h.ex/l2"}
	}
	addrs := []vpAddr{vpAddressee(0), {isNil: true, item: anon1}, vpAddressee(2), {isNil: true, item: anon2}, vpAddressee(1)}
	vpC10Run(t, addrs, []int{0, 0, vpChoice(2), 1, vpChoice(4)})
}

func vpH_C10_public() {
	t := vpC10Target(1)
	pub := vpAddr{item: PublicNS, key: '*'}
	addrs := []vpAddr{pub, vpAddressee(0), pub, vpAddressee(1)}
	vpC10Run(t, addrs, []int{0, 0, 1, vpChoice(4)})
}

// (four addressees over the presentation x placement matrix did not finish in 15 minutes even with tied
// placements: 227 000 paths explored without a violation; not registered. Three addressees in every
// presentation and placement, and five in one list, are.)

func vpT_C10_five_same_list() {
	t := vpC10Target(0)
	addrs := []vpAddr{vpAddressee(0), vpAddressee(1), vpAddressee(2), vpAddressee(0), vpAddressee(3)}
	vpC10Run(t, addrs, []int{0, 0, 0, 0, vpChoice(5)})
}

// Block: the blocked object is addressed nowhere afterwards
func vpH_C10_block() {
	x := &Activity{ID: "https://h.ex/self", Type: BlockType}
	obj := vpAddressee([]int{0, 1, 3}[vpChoice(3)])
	x.Object = obj.item
	addrs := []vpAddr{vpAddressee(0), vpAddressee(2), vpAddressee(3)}
	lists := []*ItemCollection{&x.To, &x.CC, &x.Bto, &x.BCC, &x.Audience}
	*lists[0] = append(*lists[0], addrs[0].item)
	s1 := vpChoice(5)
	*lists[s1] = append(*lists[s1], addrs[1].item)
	s2 := 1
	*lists[s2] = append(*lists[s2], addrs[2].item)
	got := x.Recipients()
	for _, it := range got {
		k, ok := vpKeyOfIRI(it.GetLink())
		vpAssert("block/not-in-result", ok && k != obj.key)
	}
	for s := 0; s < 4; s++ {
		for _, it := range *lists[s] {
			k, ok := vpKeyOfIRI(it.GetLink())
			vpAssert("block/not-in-lists", ok && k != obj.key)
		}
	}
	// everybody else is still addressed
	for _, a := range addrs {
		if a.key != obj.key {
			found := false
			for _, it := range got {
				if k, ok := vpKeyOfIRI(it.GetLink()); ok && k == a.key {
					found = true
				}
			}
			vpAssert("block/others-kept", found)
		}
	}
	vpReach("end")
}

// a list of objects: Recipients() of the list is the de-duplicated union, and each member's own
// addressing lists end up exactly as its own Recipients() would leave them - what another member of
// the list mentions does not take anything away from this one
func vpH_C10_list_of_objects() {
	mk := func(c byte) IRI { return IRI("https://h.ex/" + string([]byte{c})) }
	a, b, c := vpRange('a', 'c'), vpRange('a', 'c'), vpRange('a', 'c')
	first := &Object{ID: "https://h.ex/n1", Type: NoteType, To: ItemCollection{mk(a)}, CC: ItemCollection{mk(b)}}
	second := &Object{ID: "https://h.ex/n2", Type: NoteType, To: ItemCollection{mk(b), mk(c)}, BCC: ItemCollection{mk(a)}}
	// what each member looks like after its own Recipients()
	r1, r2 := *first, *second
	r1.To, r1.CC = append(ItemCollection{}, first.To...), append(ItemCollection{}, first.CC...)
	r2.To, r2.BCC = append(ItemCollection{}, second.To...), append(ItemCollection{}, second.BCC...)
	_ = r1.Recipients()
	_ = r2.Recipients()
	list := ItemCollection{first, second}
	got := list.Recipients()
	// the union, first mentions in order: to, cc of the first, then to, bcc of the second
	var want ItemCollection
	for _, it := range []IRI{mk(a), mk(b), mk(b), mk(c), mk(a)} {
		seen := false
		for _, w := range want {
			if w.GetLink() == it {
				seen = true
			}
		}
		if !seen {
			want = append(want, it)
		}
	}
	vpAssert("list/union-count", len(got) == len(want))
	if len(got) == len(want) {
		for i := range want {
			vpAssert("list/union-order", got[i].GetLink() == want[i].GetLink())
		}
	}
	vpAssert("list/first-member-to", vpEq_Items(first.To, r1.To) && vpEq_Items(first.CC, r1.CC))
	vpAssert("list/second-member-lists", vpEq_Items(second.To, r2.To) && vpEq_Items(second.BCC, r2.BCC))
	vpReach("end")
}

func vpW_C10_twin() {
	t := vpC10Target(0)
	vpC10Run(t, []vpAddr{vpAddressee(0)}, []int{0})
	vpAssert("twin", false)
}
