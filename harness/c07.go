package activitypub

import "github.com/valyala/fastjson"

// C07 — every vocabulary type name maps to one Go type, consistently everywhere.

// the ActivityStreams vocabulary, transcribed from the specification: name -> (Go type, family)
type vpSpecEntry struct{ goType, family string }

var vpSpec = map[ActivityVocabularyType]vpSpecEntry{
	"Object": {"Object", "object"}, "Article": {"Object", "object"}, "Audio": {"Object", "object"}, "Document": {"Object", "object"},
	"Event": {"Object", "object"}, "Image": {"Object", "object"}, "Note": {"Object", "object"}, "Page": {"Object", "object"}, "Video": {"Object", "object"},
	"Place": {"Place", "object"}, "Profile": {"Profile", "object"}, "Relationship": {"Relationship", "object"}, "Tombstone": {"Tombstone", "object"},
	"Link": {"Link", "link"}, "Mention": {"Link", "link"},
	"Activity": {"Activity", "activity"}, "Accept": {"Activity", "activity"}, "Add": {"Activity", "activity"}, "Announce": {"Activity", "activity"},
	"Block": {"Activity", "activity"}, "Create": {"Activity", "activity"}, "Delete": {"Activity", "activity"}, "Dislike": {"Activity", "activity"},
	"Flag": {"Activity", "activity"}, "Follow": {"Activity", "activity"}, "Ignore": {"Activity", "activity"}, "Invite": {"Activity", "activity"},
	"Join": {"Activity", "activity"}, "Leave": {"Activity", "activity"}, "Like": {"Activity", "activity"}, "Listen": {"Activity", "activity"},
	"Move": {"Activity", "activity"}, "Offer": {"Activity", "activity"}, "Reject": {"Activity", "activity"}, "Read": {"Activity", "activity"},
	"Remove": {"Activity", "activity"}, "TentativeReject": {"Activity", "activity"}, "TentativeAccept": {"Activity", "activity"},
	"Undo": {"Activity", "activity"}, "Update": {"Activity", "activity"}, "View": {"Activity", "activity"},
	"IntransitiveActivity": {"IntransitiveActivity", "intransitive"}, "Arrive": {"IntransitiveActivity", "intransitive"}, "Travel": {"IntransitiveActivity", "intransitive"},
	"Question": {"Question", "intransitive"},
	"Actor":    {"Actor", "actor"}, "Application": {"Actor", "actor"}, "Group": {"Actor", "actor"}, "Organization": {"Actor", "actor"},
	"Person": {"Actor", "actor"}, "Service": {"Actor", "actor"},
	"Collection": {"Collection", "collection"}, "OrderedCollection": {"OrderedCollection", "collection"},
	"CollectionPage": {"CollectionPage", "collection"}, "OrderedCollectionPage": {"OrderedCollectionPage", "collection"},
}

// names the library uses internally, which are not ActivityStreams types
var vpInternalNames = map[ActivityVocabularyType]bool{"IRICollection": true, "ItemCollection": true, "IRI": true}

var vpGenericNames = map[ActivityVocabularyType]bool{"Object": true, "Actor": true, "Activity": true, "IntransitiveActivity": true, "Link": true}

// vpGoTypeName names the concrete Go type of a vocabulary value.
func vpGoTypeName(it Item) string {
	for i := range vpTypeNames {
		if vpSameGoType(vpNew(i), it) {
			return vpTypeNames[i]
		}
	}
	switch it.(type) {
	case nil:
		return "nil"
	case IRI:
		return "IRI"
	case ItemCollection:
		return "ItemCollection"
	}
	return "?"
}

func vpSameGoType(a, b Item) bool {
	switch a.(type) {
	case *Object:
		_, ok := b.(*Object)
		return ok
	case *Actor:
		_, ok := b.(*Actor)
		return ok
	case *Activity:
		_, ok := b.(*Activity)
		return ok
	case *IntransitiveActivity:
		_, ok := b.(*IntransitiveActivity)
		return ok
	case *Question:
		_, ok := b.(*Question)
		return ok
	case *Collection:
		_, ok := b.(*Collection)
		return ok
	case *CollectionPage:
		_, ok := b.(*CollectionPage)
		return ok
	case *OrderedCollection:
		_, ok := b.(*OrderedCollection)
		return ok
	case *OrderedCollectionPage:
		_, ok := b.(*OrderedCollectionPage)
		return ok
	case *Place:
		_, ok := b.(*Place)
		return ok
	case *Profile:
		_, ok := b.(*Profile)
		return ok
	case *Relationship:
		_, ok := b.(*Relationship)
		return ok
	case *Tombstone:
		_, ok := b.(*Tombstone)
		return ok
	case *Link:
		_, ok := b.(*Link)
		return ok
	}
	return false
}

// every constant of the source is a known vocabulary name (or an internal one)
func vpH_C07_constants_known() {
	for _, c := range vpVocabConsts {
		_, inSpec := vpSpec[c.Value]
		if !inSpec && !vpInternalNames[c.Value] {
			// a type name the library defines beyond the ActivityStreams vocabulary (an extension): the
			// specification table says nothing about its family, so it is recorded, not judged
			vpObserve("constant-outside-the-specification/"+c.Name, 1)
		}
	}
	n := 0
	for range vpSpec {
		n++
	}
	found := 0
	for _, c := range vpVocabConsts {
		if _, ok := vpSpec[c.Value]; ok {
			found++
		}
	}
	vpAssert("every-spec-name-has-a-constant", found == n)
	vpReach("end")
}

func vpC07Doc(name ActivityVocabularyType, idc, txt byte) []byte {
	return []byte(`{"id":"https://h.ex/` + string([]byte{idc}) + `","type":"` + string(name) + `","name":"` + string([]byte{txt}) + `"}`)
}

func vpC07IDName(it Item) (IRI, []byte) {
	if l, ok := it.(*Link); ok {
		if len(l.Name) == 1 {
			return l.ID, l.Name[0].Value
		}
		return l.ID, nil
	}
	var id IRI
	var name []byte
	_ = OnObject(it, func(o *Object) error {
		id = o.ID
		if len(o.Name) == 1 {
			name = o.Name[0].Value
		}
		return nil
	})
	return id, name
}

const vpCustomType = ActivityVocabularyType("Zebra")

func vpInstallHooks() {
	ItemTyperFunc = func(t ActivityVocabularyType) (Item, error) {
		if t == vpCustomType {
			return &Object{Type: t}, nil
		}
		return GetItemByType(t)
	}
	kind := vpHookKind
	JSONItemUnmarshal = func(t ActivityVocabularyType, v *fastjson.Value, it Item) error {
		// kind 0: a hook that loads whatever it is handed; 1: one that only knows its own type and leaves
		// everything else alone; 2: one that refuses everything else. For names of the vocabulary the
		// outcome is the same under all three, because the library does not consult the hook for them
		// (seed C07-17: names missing from the Types list sent straight to the hook).
		if kind != 0 && t != vpCustomType {
			if kind == 2 {
				return vpErrNotMine
			}
			return nil
		}
		return OnObject(it, func(o *Object) error { return JSONLoadObject(v, o) })
	}
	IsNotEmpty = func(it Item) bool { return NotEmpty(it) }
}

var vpHookKind int

var vpErrNotMine = vpHookErr("not a type of this extension")

type vpHookErr string

func (e vpHookErr) Error() string { return string(e) }

func vpC07Name() {
	ci := vpChoice(len(vpVocabConsts))
	c := vpVocabConsts[ci]
	spec, ok := vpSpec[c.Value]
	if !ok {
		vpReach("end")
		return
	}
	hooks := vpBool()
	if hooks {
		vpHookKind = vpChoice(3)
		vpInstallHooks()
	}
	name := c.Value
	cell := string(name)
	if hooks {
		cell += "/hooks" + string(rune('0'+vpHookKind))
	}
	idc, txt := vpAlnum(), vpLower()
	wantID := IRI("https://h.ex/" + string([]byte{idc}))

	// 1. the registry
	reg, err := ItemTyperFunc(name)
	vpAssert("registry/no-error/"+cell, err == nil && reg != nil)
	vpAssert("registry/go-type/"+cell, vpGoTypeName(reg) == spec.goType)

	switch vpChoice(6) {
	case 5: // a document that says nothing but its type still is a value of that type, wherever it stands
		bare := `{"type":"` + string(name) + `"}`
		y, err := UnmarshalJSON([]byte(bare))
		vpAssert("json-bare/decodes/"+cell, err == nil && y != nil)
		if y != nil {
			vpAssert("json-bare/go-type/"+cell, vpGoTypeName(y) == spec.goType)
			vpAssert("json-bare/type/"+cell, y.GetType() == name)
		}
		y, err = UnmarshalJSON([]byte(`{"id":"https://h.ex/outer","type":"Note","icon":` + bare + `,"tag":["https://h.ex/first",` + bare + `]}`))
		vpAssert("json-bare-nested/decodes/"+cell, err == nil && y != nil)
		if o, ok := y.(*Object); ok {
			vpAssert("json-bare-nested/present/"+cell, o.Icon != nil && vpGoTypeName(o.Icon) == spec.goType)
			vpAssert("json-bare-list/present/"+cell, len(o.Tag) == 2 && vpGoTypeName(o.Tag[1]) == spec.goType)
		}
	case 0: // JSON top level
		y, err := UnmarshalJSON(vpC07Doc(name, idc, txt))
		vpAssert("json-top/decodes/"+cell, err == nil && y != nil)
		if y != nil {
			vpAssert("json-top/go-type/"+cell, vpGoTypeName(y) == spec.goType)
			id, nm := vpC07IDName(y)
			vpAssert("json-top/id/"+cell, id == wantID)
			vpAssert("json-top/name/"+cell, len(nm) == 1 && nm[0] == txt)
			vpAssert("json-top/type/"+cell, y.GetType() == name)
		}
	case 1: // JSON nested in an item position
		doc := []byte(`{"id":"https://h.ex/outer","type":"Note","icon":` + string(vpC07Doc(name, idc, txt)) + `}`)
		y, err := UnmarshalJSON(doc)
		vpAssert("json-nested/decodes/"+cell, err == nil && y != nil)
		if o, ok := y.(*Object); ok {
			vpAssert("json-nested/present/"+cell, o.Icon != nil)
			if o.Icon != nil {
				vpAssert("json-nested/go-type/"+cell, vpGoTypeName(o.Icon) == spec.goType)
				id, _ := vpC07IDName(o.Icon)
				vpAssert("json-nested/id/"+cell, id == wantID)
			}
		} else {
			vpAssert("json-nested/outer-is-object/"+cell, false)
		}
	case 2: // JSON nested in a list position
		doc := []byte(`{"id":"https://h.ex/outer","type":"Note","tag":["https://h.ex/first",` + string(vpC07Doc(name, idc, txt)) + `]}`)
		y, err := UnmarshalJSON(doc)
		vpAssert("json-list/decodes/"+cell, err == nil && y != nil)
		if o, ok := y.(*Object); ok {
			vpAssert("json-list/two-members/"+cell, len(o.Tag) == 2)
			if len(o.Tag) == 2 {
				vpAssert("json-list/go-type/"+cell, vpGoTypeName(o.Tag[1]) == spec.goType)
				id, _ := vpC07IDName(o.Tag[1])
				vpAssert("json-list/id/"+cell, id == wantID)
			}
		}
	case 3: // gob top level
		x := reg
		vpSetIDName(x, wantID, txt, name)
		b, err := GobEncode(x)
		vpAssert("gob-top/encodes/"+cell, err == nil && len(b) > 0)
		y, err := GobDecode(b)
		vpAssert("gob-top/decodes/"+cell, err == nil && y != nil)
		if y != nil {
			vpAssert("gob-top/go-type/"+cell, vpGoTypeName(y) == spec.goType)
			id, nm := vpC07IDName(y)
			vpAssert("gob-top/id/"+cell, id == wantID)
			vpAssert("gob-top/name/"+cell, len(nm) == 1 && nm[0] == txt)
		}
	default: // gob nested
		x := reg
		vpSetIDName(x, wantID, txt, name)
		outer := &Object{ID: "https://h.ex/outer", Type: NoteType, Icon: x}
		b, err := GobEncode(outer)
		vpAssert("gob-nested/encodes/"+cell, err == nil && len(b) > 0)
		y, err := GobDecode(b)
		vpAssert("gob-nested/decodes/"+cell, err == nil && y != nil)
		if o, ok := y.(*Object); ok {
			vpAssert("gob-nested/present/"+cell, o.Icon != nil)
			if o.Icon != nil {
				vpAssert("gob-nested/go-type/"+cell, vpGoTypeName(o.Icon) == spec.goType)
				id, _ := vpC07IDName(o.Icon)
				vpAssert("gob-nested/id/"+cell, id == wantID)
			}
		}
	}
	vpReach("end")
}

func vpSetIDName(x Item, id IRI, txt byte, typ ActivityVocabularyType) {
	if l, ok := x.(*Link); ok {
		l.ID, l.Type, l.Name = id, typ, NaturalLanguageValues{{Ref: NilLangRef, Value: Content{txt}}}
		return
	}
	_ = OnObject(x, func(o *Object) error {
		o.ID, o.Type, o.Name = id, typ, NaturalLanguageValues{{Ref: NilLangRef, Value: Content{txt}}}
		return nil
	})
}

func vpH_C07_names() { vpC07Name() }

// a value of every Go type with any one further property set (formerType, relationship, a nested
// typed object, ...) decodes, from both codecs, to the same Go type bearing the same type name:
// no other property can take the place of the type.
func vpH_C07_populated() {
	ti := vpChoice(len(vpTypeNames))
	fields := vpFieldsOf(ti)
	f := vpChoice(len(fields))
	if vpShapes(fields[f].Kind) == 0 {
		vpReach("end")
		return
	}
	x := vpNew(ti)
	vpSetField(x, 0, 0, 'i')
	shape := vpChoice(vpShapes(fields[f].Kind))
	if f != 0 {
		vpSetField(x, f, shape, 'a')
	}
	cell := vpTypeNames[ti] + "." + fields[f].Name + "/" + string([]byte{'0' + byte(shape/10), '0' + byte(shape%10)})
	var y Item
	var err error
	way := vpChoice(3)
	isJSON := way < 2
	if way == 1 {
		// a document written by the harness's own writer (terms from the jsonld tags): what the decoder
		// puts into the struct's own fields, not what a round trip through the library's writer hides
		cell += "/document"
		y, err = UnmarshalJSON(vpDocOf(x, 0))
	} else if isJSON {
		cell += "/json"
		var b []byte
		b, err = vpMarshalItem(x)
		vpAssert("populated/encodes/"+cell, err == nil && len(b) > 0)
		y, err = UnmarshalJSON(b)
	} else {
		cell += "/gob"
		var b []byte
		b, err = GobEncode(x)
		vpAssert("populated/encodes/"+cell, err == nil && len(b) > 0)
		y, err = GobDecode(b)
	}
	vpAssert("populated/decodes/"+cell, err == nil && y != nil)
	if y != nil {
		vpAssert("populated/go-type/"+cell, vpSameGoType(x, y))
		vpAssert("populated/type-name/"+cell, y.GetType() == x.GetType())
		// ... and carries the property that was written
		want := vpCloneItem(x)
		got := y
		if way == 1 {
			got = vpCloneItem(y)
			vpC05Normal(want)
			vpC05Normal(got)
		} else if isJSON {
			vpC01Normal(want, ti, f)
		}
		if vpSameGoType(x, y) {
			vpDiffItems("populated/carries/"+cell, want, got, nil)
		}
	}
	vpReach("end")
}

// family predicates and helpers agree with the family the vocabulary places the name in
func vpH_C07_families() {
	c := vpVocabConsts[vpChoice(len(vpVocabConsts))]
	spec, ok := vpSpec[c.Value]
	if !ok {
		vpReach("end")
		return
	}
	name := c.Value
	cell := string(name)
	in := map[string]bool{
		"object": ObjectTypes.Contains(name), "actor": ActorTypes.Contains(name), "activity": ActivityTypes.Contains(name),
		"intransitive": IntransitiveActivityTypes.Contains(name), "link": LinkTypes.Contains(name), "collection": CollectionTypes.Contains(name),
	}
	for fam, member := range in {
		if fam == spec.family {
			vpAssert("family/in-own-table/"+cell, member || vpGenericNames[name])
		} else {
			vpAssert("family/not-in-other-table/"+cell+"/"+fam, !member)
		}
	}
	x, err := GetItemByType(name)
	vpAssert("family/registry/"+cell, err == nil && x != nil)
	if x == nil {
		vpReach("end")
		return
	}
	vpSetIDName(x, "https://h.ex/x", 'n', name)
	vpAssert("family/IsLink/"+cell, IsLink(x) == (spec.family == "link") && x.IsLink() == (spec.family == "link"))
	vpAssert("family/IsObject/"+cell, IsObject(x) == (spec.family != "link") && x.IsObject() == (spec.family != "link"))
	vpAssert("family/IsCollection/"+cell, x.IsCollection() == (spec.family == "collection"))
	called := false
	switch spec.family {
	case "object":
		err = OnObject(x, func(*Object) error { called = true; return nil })
	case "actor":
		err = OnActor(x, func(*Actor) error { called = true; return nil })
	case "activity":
		err = OnActivity(x, func(*Activity) error { called = true; return nil })
	case "intransitive":
		err = OnIntransitiveActivity(x, func(*IntransitiveActivity) error { called = true; return nil })
	case "link":
		err = OnLink(x, func(*Link) error { called = true; return nil })
	case "collection":
		err = OnCollectionIntf(x, func(CollectionInterface) error { called = true; return nil })
	}
	vpAssert("family/helper-accepts/"+cell, err == nil && called)
	vpReach("end")
}

// names outside the vocabulary, hooks unset: an error, nothing, or a plain object - never a wrong vocabulary type
func vpC07Outside(n int) {
	b := make([]byte, n)
	for i := range b {
		c := vpByte()
		vpAssume(vpLetterTab[c])
		b[i] = c
	}
	name := ActivityVocabularyType(b)
	for _, c := range vpVocabConsts {
		if len(c.Value) == n {
			vpAssume(!vpEqualFold(string(c.Value), string(name)))
		}
	}
	y, err := UnmarshalJSON(vpC07Doc(name, 'q', 't'))
	vpAssert("outside/json-error-or-nothing", err != nil || IsNil(y))
	// nested in an item position and in a list: nothing there either, the rest of the document is read
	outer, err := UnmarshalJSON([]byte(`{"id":"https://h.ex/outer","type":"Note","icon":` + string(vpC07Doc(name, 'q', 't')) + `,"tag":["https://h.ex/first",` + string(vpC07Doc(name, 'r', 't')) + `]}`))
	if o, ok := outer.(*Object); ok && err == nil {
		vpAssert("outside/json-nested-nothing", IsNil(o.Icon))
		vpAssert("outside/json-list-nothing", len(o.Tag) == 1)
	} else {
		vpAssert("outside/json-outer-read-or-error", err != nil)
	}
	reg, err := GetItemByType(name)
	if err == nil && reg != nil {
		_, plain := reg.(*Object)
		vpAssert("outside/registry-plain-object-or-nothing", plain)
	}
	vpReach("end")
}

var vpLetterTab = func() (t [256]bool) {
	for c := 'a'; c <= 'z'; c++ {
		t[c] = true
		t[c-32] = true
	}
	return
}()

func vpEqualFold(a, b string) bool {
	if len(a) != len(b) {
		return false
	}
	for i := 0; i < len(a); i++ {
		if a[i]|0x20 != b[i]|0x20 {
			return false
		}
	}
	return true
}

func vpH_C07_outside() { vpC07Outside(1 + vpChoice(5)) }

// with the hooks installed a name outside the vocabulary is decoded by the hooks - whatever kind of
// fresh value the typer hook hands out (typed or untyped) - and without them the same document is nothing
func vpH_C07_hooks_outside() {
	typedFresh := vpBool()
	calls := 0
	var seen ActivityVocabularyType
	saveT, saveU := ItemTyperFunc, JSONItemUnmarshal
	ItemTyperFunc = func(t ActivityVocabularyType) (Item, error) {
		if t == vpCustomType {
			if typedFresh {
				return &Object{Type: t}, nil
			}
			return &Object{}, nil
		}
		return GetItemByType(t)
	}
	JSONItemUnmarshal = func(t ActivityVocabularyType, v *fastjson.Value, it Item) error {
		calls++
		seen = t
		return OnObject(it, func(o *Object) error { return JSONLoadObject(v, o) })
	}
	idc, txt := vpAlnum(), vpLower()
	y, err := UnmarshalJSON(vpC07Doc(vpCustomType, idc, txt))
	ItemTyperFunc, JSONItemUnmarshal = saveT, saveU
	vpAssert("hooks-outside/decoded", err == nil && y != nil)
	vpAssert("hooks-outside/unmarshal-hook-called-once", calls == 1 && seen == vpCustomType)
	if y != nil {
		id, nm := vpC07IDName(y)
		vpAssert("hooks-outside/id-and-name", id == IRI("https://h.ex/"+string([]byte{idc})) && len(nm) == 1 && nm[0] == txt)
	}
	z, err := UnmarshalJSON(vpC07Doc(vpCustomType, idc, txt))
	vpAssert("hooks-outside/without-hooks-nothing", err != nil || IsNil(z))
	vpReach("end")
}
func vpT_C07_outside6() { vpC07Outside(6 + vpChoice(3)) }

func vpW_C07_twin() {
	_, _ = GetItemByType(NoteType)
	vpAssert("twin", false)
}
