package activitypub

// vpJ — a strict RFC 8259 reader used as an oracle, independent of fastjson and of the library:
// exactly one value, no duplicate member names, strings decoded to bytes, no raw control
// characters, numbers by grammar. It is interpreted by the engine like any other code.

type vpJ struct {
	kind  byte // 'o' object, 'a' array, 's' string, 'n' number, 't' true, 'f' false, 'z' null
	str   []byte
	names [][]byte
	vals  []*vpJ
	elems []*vpJ
	raw   []byte
}

type vpJParser struct {
	b     []byte
	p     int
	depth int
	why   string
}

func vpParseJSON(b []byte) (*vpJ, string) {
	ps := &vpJParser{b: b}
	ps.ws()
	v := ps.value()
	if v == nil {
		return nil, ps.why
	}
	ps.ws()
	if ps.p != len(ps.b) {
		return nil, "trailing bytes after the value"
	}
	return v, ""
}

func (ps *vpJParser) fail(why string) *vpJ {
	if ps.why == "" {
		ps.why = why
	}
	return nil
}

func (ps *vpJParser) ws() {
	for ps.p < len(ps.b) {
		c := ps.b[ps.p]
		if c == ' ' || c == '\t' || c == '\n' || c == '\r' {
			ps.p++
			continue
		}
		return
	}
}

func (ps *vpJParser) lit(s string, k byte) *vpJ {
	if ps.p+len(s) > len(ps.b) || string(ps.b[ps.p:ps.p+len(s)]) != s {
		return ps.fail("bad literal")
	}
	ps.p += len(s)
	return &vpJ{kind: k}
}

func (ps *vpJParser) value() *vpJ {
	if ps.p >= len(ps.b) {
		return ps.fail("unexpected end of input")
	}
	ps.depth++
	if ps.depth > 16 {
		return ps.fail("too deep for the oracle")
	}
	defer func() { ps.depth-- }()
	switch c := ps.b[ps.p]; {
	case c == '{':
		return ps.object()
	case c == '[':
		return ps.array()
	case c == '"':
		s, ok := ps.str()
		if !ok {
			return nil
		}
		return &vpJ{kind: 's', str: s}
	case c == 't':
		return ps.lit("true", 't')
	case c == 'f':
		return ps.lit("false", 'f')
	case c == 'n':
		return ps.lit("null", 'z')
	case c == '-' || (c >= '0' && c <= '9'):
		return ps.number()
	}
	return ps.fail("unexpected character at start of a value")
}

func (ps *vpJParser) digits() int {
	n := 0
	for ps.p < len(ps.b) && ps.b[ps.p] >= '0' && ps.b[ps.p] <= '9' {
		ps.p++
		n++
	}
	return n
}

func (ps *vpJParser) number() *vpJ {
	start := ps.p
	if ps.b[ps.p] == '-' {
		ps.p++
	}
	if ps.p >= len(ps.b) {
		return ps.fail("bad number")
	}
	if ps.b[ps.p] == '0' {
		ps.p++
	} else if ps.digits() == 0 {
		return ps.fail("bad number")
	}
	if ps.p < len(ps.b) && ps.b[ps.p] == '.' {
		ps.p++
		if ps.digits() == 0 {
			return ps.fail("bad number fraction")
		}
	}
	if ps.p < len(ps.b) && (ps.b[ps.p] == 'e' || ps.b[ps.p] == 'E') {
		ps.p++
		if ps.p < len(ps.b) && (ps.b[ps.p] == '+' || ps.b[ps.p] == '-') {
			ps.p++
		}
		if ps.digits() == 0 {
			return ps.fail("bad number exponent")
		}
	}
	return &vpJ{kind: 'n', raw: ps.b[start:ps.p]}
}

func vpHexVal(c byte) (int, bool) {
	switch {
	case c >= '0' && c <= '9':
		return int(c - '0'), true
	case c >= 'a' && c <= 'f':
		return int(c-'a') + 10, true
	case c >= 'A' && c <= 'F':
		return int(c-'A') + 10, true
	}
	return 0, false
}

func (ps *vpJParser) hex4() (int, bool) {
	if ps.p+4 > len(ps.b) {
		return 0, false
	}
	r := 0
	for i := 0; i < 4; i++ {
		h, ok := vpHexVal(ps.b[ps.p+i])
		if !ok {
			return 0, false
		}
		r = r<<4 | h
	}
	ps.p += 4
	return r, true
}

func vpAppendRune(dst []byte, r int) []byte {
	switch {
	case r < 0x80:
		return append(dst, byte(r))
	case r < 0x800:
		return append(dst, byte(0xC0|r>>6), byte(0x80|r&0x3F))
	case r < 0x10000:
		return append(dst, byte(0xE0|r>>12), byte(0x80|(r>>6)&0x3F), byte(0x80|r&0x3F))
	}
	return append(dst, byte(0xF0|r>>18), byte(0x80|(r>>12)&0x3F), byte(0x80|(r>>6)&0x3F), byte(0x80|r&0x3F))
}

// str parses a string starting at the opening quote and returns the decoded bytes.
func (ps *vpJParser) str() ([]byte, bool) {
	ps.p++ // opening quote
	out := []byte{}
	for {
		if ps.p >= len(ps.b) {
			ps.fail("unterminated string")
			return nil, false
		}
		c := ps.b[ps.p]
		switch {
		case c == '"':
			ps.p++
			return out, true
		case c < 0x20:
			ps.fail("raw control character inside a string")
			return nil, false
		case c == '\\':
			ps.p++
			if ps.p >= len(ps.b) {
				ps.fail("unterminated escape")
				return nil, false
			}
			e := ps.b[ps.p]
			ps.p++
			switch e {
			case '"', '\\', '/':
				out = append(out, e)
			case 'b':
				out = append(out, '\b')
			case 'f':
				out = append(out, '\f')
			case 'n':
				out = append(out, '\n')
			case 'r':
				out = append(out, '\r')
			case 't':
				out = append(out, '\t')
			case 'u':
				r, ok := ps.hex4()
				if !ok {
					ps.fail("bad \\u escape")
					return nil, false
				}
				if r >= 0xD800 && r < 0xDC00 && ps.p+6 <= len(ps.b) && ps.b[ps.p] == '\\' && ps.b[ps.p+1] == 'u' {
					save := ps.p
					ps.p += 2
					r2, ok2 := ps.hex4()
					if ok2 && r2 >= 0xDC00 && r2 < 0xE000 {
						r = 0x10000 + (r-0xD800)<<10 + (r2 - 0xDC00)
					} else {
						ps.p = save
						r = 0xFFFD
					}
				} else if r >= 0xD800 && r < 0xE000 {
					r = 0xFFFD
				}
				out = vpAppendRune(out, r)
			default:
				ps.fail("invalid escape character")
				return nil, false
			}
		default:
			out = append(out, c)
			ps.p++
		}
	}
}

func vpBytesEq(a, b []byte) bool {
	if len(a) != len(b) {
		return false
	}
	for i := range a {
		if a[i] != b[i] {
			return false
		}
	}
	return true
}

func (ps *vpJParser) object() *vpJ {
	ps.p++
	v := &vpJ{kind: 'o'}
	ps.ws()
	if ps.p < len(ps.b) && ps.b[ps.p] == '}' {
		ps.p++
		return v
	}
	for {
		ps.ws()
		if ps.p >= len(ps.b) || ps.b[ps.p] != '"' {
			return ps.fail("member name expected")
		}
		name, ok := ps.str()
		if !ok {
			return nil
		}
		for _, n := range v.names {
			if vpBytesEq(n, name) {
				return ps.fail("duplicate member name " + string(name))
			}
		}
		ps.ws()
		if ps.p >= len(ps.b) || ps.b[ps.p] != ':' {
			return ps.fail("colon expected")
		}
		ps.p++
		ps.ws()
		val := ps.value()
		if val == nil {
			return nil
		}
		v.names = append(v.names, name)
		v.vals = append(v.vals, val)
		ps.ws()
		if ps.p >= len(ps.b) {
			return ps.fail("unterminated object")
		}
		if ps.b[ps.p] == ',' {
			ps.p++
			continue
		}
		if ps.b[ps.p] == '}' {
			ps.p++
			return v
		}
		return ps.fail("comma or closing brace expected")
	}
}

func (ps *vpJParser) array() *vpJ {
	ps.p++
	v := &vpJ{kind: 'a'}
	ps.ws()
	if ps.p < len(ps.b) && ps.b[ps.p] == ']' {
		ps.p++
		return v
	}
	for {
		ps.ws()
		e := ps.value()
		if e == nil {
			return nil
		}
		v.elems = append(v.elems, e)
		ps.ws()
		if ps.p >= len(ps.b) {
			return ps.fail("unterminated array")
		}
		if ps.b[ps.p] == ',' {
			ps.p++
			continue
		}
		if ps.b[ps.p] == ']' {
			ps.p++
			return v
		}
		return ps.fail("comma or closing bracket expected")
	}
}

// get returns the member of an object.
func (v *vpJ) get(name string) *vpJ {
	if v == nil || v.kind != 'o' {
		return nil
	}
	for i, n := range v.names {
		if string(n) == name {
			return v.vals[i]
		}
	}
	return nil
}

func (v *vpJ) memberNames() []string {
	var out []string
	if v != nil {
		for _, n := range v.names {
			out = append(out, string(n))
		}
	}
	return out
}
