package activitypub

import (
	"bytes"
	"fmt"
)

// C12 — read-only operations never modify their arguments (hence are race-free).
// vpFreeze() makes every object allocated so far, and the package's variables, read-only in the
// engine; any later store into them is reported with the writing function. Each operation is also
// invoked twice and must answer the same.

type vpReadOp struct {
	name string
	run  func(x Item) []byte
}

func vpBoolBytes(b bool) []byte {
	if b {
		return []byte{1}
	}
	return []byte{0}
}

var vpReadOps = []vpReadOp{
	{"MarshalJSON", func(x Item) []byte { b, _ := vpMarshalItem(x); return b }},
	{"GobEncode", func(x Item) []byte { b, _ := GobEncode(x); return b }},
	{"ItemsEqual-self", func(x Item) []byte { return vpBoolBytes(ItemsEqual(x, x)) }},
	{"ItemsEqual-copy", func(x Item) []byte { c := vpCloneItem(x); return vpBoolBytes(ItemsEqual(x, c) && ItemsEqual(c, x)) }},
	{"IsNil", func(x Item) []byte { return vpBoolBytes(IsNil(x)) }},
	{"NotEmpty", func(x Item) []byte { return vpBoolBytes(NotEmpty(x)) }},
	{"predicates", func(x Item) []byte {
		return []byte{vpBoolBytes(IsObject(x))[0], vpBoolBytes(IsLink(x))[0], vpBoolBytes(IsIRI(x))[0], vpBoolBytes(IsItemCollection(x))[0], vpBoolBytes(x.IsCollection())[0]}
	}},
	{"GetLink-GetType", func(x Item) []byte { return []byte(string(x.GetLink()) + "|" + string(x.GetType())) }},
	{"DerefItem", func(x Item) []byte { return []byte{byte(len(DerefItem(x)))} }},
	{"OnObject-read", func(x Item) []byte {
		var out []byte
		_ = OnObject(x, func(o *Object) error { out = append(out, o.ID...); out = append(out, byte(len(o.To))); return nil })
		return out
	}},
	{"ToObject-read", func(x Item) []byte {
		o, err := ToObject(x)
		if err != nil || o == nil {
			return nil
		}
		return []byte(o.ID)
	}},
	{"OnActivity-read", func(x Item) []byte {
		var out []byte
		_ = OnActivity(x, func(a *Activity) error { out = append(out, a.ID...); return nil })
		return out
	}},
	{"OnCollectionIntf-read", func(x Item) []byte {
		var out []byte
		_ = OnCollectionIntf(x, func(c CollectionInterface) error {
			out = append(out, byte(c.Count()), byte(len(c.Collection())))
			out = append(out, vpBoolBytes(c.Contains(IRI("https://h.ex/m7")))[0])
			return nil
		})
		// the same inspectors called on the value itself
		if c, ok := x.(CollectionInterface); ok {
			out = append(out, byte(c.Count()), byte(len(c.Collection())))
		}
		return out
	}},
	{"ItemOrderTimestamp", func(x Item) []byte { return vpBoolBytes(ItemOrderTimestamp(x, x)) }},
	{"Contains", func(x Item) []byte {
		col := ItemCollection{x}
		return vpBoolBytes(col.Contains(x))
	}},
	{"decode-unrelated", func(x Item) []byte {
		y, _ := UnmarshalJSON([]byte(`{"id":"https://h.ex/other","type":"Note","name":"n","to":["https://h.ex/t"]}`))
		if y == nil {
			return nil
		}
		return []byte(y.GetLink())
	}},
	{"collection-path-getters", func(x Item) []byte {
		var out []byte
		for _, c := range []CollectionPath{Inbox, Outbox, Followers, Liked, Likes, Shares, Replies} {
			out = append(out, c.IRI(x)...)
			if v := c.Of(x); v != nil {
				out = append(out, v.GetLink()...)
			}
		}
		// ... and asked about a list of items
		list := ItemCollection{x, IRI("https://h.ex/m7")}
		for _, c := range []CollectionPath{Inbox, Replies} {
			if v := c.Of(list); v != nil {
				out = append(out, byte(len(DerefItem(v))))
			}
		}
		out = append(out, byte(len(list)))
		return out
	}},
	{"text-marshalers", func(x Item) []byte {
		// the text forms of the language values and their parts (entries whose text has spare capacity:
		// a writer that adopts the text's own slice as its buffer writes into memory it shares)
		var out []byte
		_ = OnObject(x, func(o *Object) error {
			for _, n := range []NaturalLanguageValues{o.Name, o.Summary, o.Content} {
				for _, e := range n {
					b, _ := e.MarshalText()
					out = append(out, b...)
					b, _ = e.MarshalJSON()
					out = append(out, b...)
					out = append(out, e.Ref.String()...)
					out = append(out, e.Value.String()...)
				}
				b, _ := n.MarshalText()
				out = append(out, b...)
				out = append(out, n.String()...)
			}
			return nil
		})
		return out
	}},
	{"formatting", func(x Item) []byte {
		// the fmt verbs the text types implement, with widths and precisions (a formatter that cuts
		// the text to the precision in place writes into the value it prints)
		var out []byte
		_ = OnObject(x, func(o *Object) error {
			for _, n := range []NaturalLanguageValues{o.Name, o.Summary, o.Content} {
				out = append(out, fmt.Sprintf("%s|%v|%q|%.2s|%.3v|%8.1s", n, n, n, n, n, n)...)
				for _, e := range n {
					out = append(out, fmt.Sprintf("%s|%v|%q|%.2s|%.1v|%-6.3q", e, e, e, e, e, e)...)
					out = append(out, fmt.Sprintf("%s|%.2s|%.1v|%s", e.Value, e.Value, e.Value, e.Ref)...)
				}
			}
			out = append(out, fmt.Sprintf("%.4s|%.5v|%.2s|%.3s", o.ID, o.ID, o.Type, o.MediaType)...)
			return nil
		})
		return out
	}},
	{"NaturalLanguageValues", func(x Item) []byte {
		var out []byte
		_ = OnObject(x, func(o *Object) error {
			b, _ := o.Name.MarshalJSON()
			out = append(out, b...)
			out = append(out, o.Name.Get(NilLangRef)...)
			out = append(out, vpBoolBytes(o.Name.Equals(o.Name))[0])
			return nil
		})
		return out
	}},
}

func vpC12Frozen(ti int) {
	x := vpPopulated(ti)
	// a text with characters the encoders have to escape, and a symbolic id character
	_ = OnObject(x, func(o *Object) error {
		o.Name = NaturalLanguageValues{{Ref: NilLangRef, Value: Content{'a', '"', vpByte(), '\\', 'n'}}}
		o.ID = vpMkIRI('i')
		return nil
	})
	// a tagged text that is a window into a larger buffer (capacity beyond its length)
	_ = OnObject(x, func(o *Object) error {
		buf := make([]byte, 5, 32)
		copy(buf, "hello")
		o.Content = NaturalLanguageValues{{Ref: "en", Value: Content(buf)}, {Ref: "fr", Value: Content("salut")}}
		return nil
	})
	// language values with entries the encoders skip (empty text, repeated tag) followed by kept ones
	switch vpChoice(3) {
	case 1:
		_ = OnObject(x, func(o *Object) error {
			o.Summary = NaturalLanguageValues{{Ref: "en", Value: Content{}}, {Ref: "fr", Value: Content("salut")}, {Ref: "de", Value: Content{vpLower()}}}
			o.Content = NaturalLanguageValues{{Ref: "en", Value: Content("a")}, {Ref: "en", Value: Content("b")}, {Ref: "fr", Value: Content("c")}}
			return nil
		})
	case 2: // entries whose tag was left empty (not the "no language" tag): an operation that normalises them writes
		_ = OnObject(x, func(o *Object) error {
			o.Summary = NaturalLanguageValues{{Ref: "", Value: Content("x")}, {Ref: "en", Value: Content("y")}}
			o.Content = NaturalLanguageValues{{Value: Content("only")}}
			return nil
		})
	}
	// lists with several members in an order no key sorts them by (ids descending, instants ascending,
	// an IRI last): an operation that "tidies" a list it was only asked to read is a write
	members := func() ItemCollection {
		return ItemCollection{
			&Object{ID: "https://h.ex/m9", Type: NoteType, Published: vpTimes[1], Updated: vpTimes[1]},
			&Object{ID: "https://h.ex/m5", Type: NoteType, Published: vpTimes[0]},
			IRI("https://h.ex/m7"),
			&Actor{ID: "https://h.ex/m1", Type: PersonType, Published: vpTimes[0].AddDate(1, 0, 0)},
		}
	}
	// the declared total is below the number of members held: an inspector that "repairs" it writes
	switch c := x.(type) {
	case *OrderedCollection:
		c.OrderedItems, c.TotalItems = members(), 1
	case *OrderedCollectionPage:
		c.OrderedItems, c.TotalItems = members(), 1
	case *Collection:
		c.Items, c.TotalItems = members(), 1
	case *CollectionPage:
		c.Items, c.TotalItems = members(), 1
	case *Question:
		c.AnyOf = members()
	}
	_ = OnObject(x, func(o *Object) error {
		o.To = members()
		o.Tag = members()
		return nil
	})
	op := vpReadOps[vpChoice(len(vpReadOps))]
	cell := op.name + "/" + vpTypeNames[ti]
	vpFreeze()
	var r1, r2 []byte
	p := vpMayPanic(func() { r1 = op.run(x) })
	vpAssert("no-panic/"+cell, !p)
	p = vpMayPanic(func() { r2 = op.run(x) })
	vpAssert("no-panic-second/"+cell, !p)
	if op.name != "GobEncode" {
		vpAssert("same-answer-twice/"+cell, bytes.Equal(r1, r2))
	}
	vpReach("end")
}

func vpH_C12_Object()   { vpC12Frozen(vpTypeIndex("Object")) }
func vpH_C12_Actor()    { vpC12Frozen(vpTypeIndex("Actor")) }
func vpH_C12_Activity() { vpC12Frozen(vpTypeIndex("Activity")) }
func vpH_C12_others()   { vpC12Frozen(3 + vpChoice(len(vpTypeNames)-3)) }

// items that are not vocabulary structs
func vpH_C12_lists() {
	var x Item
	switch vpChoice(8) {
	case 5: // lists that name a member twice (an inspector that "cleans up" the caller's list writes)
		a := vpMkIRI('a')
		x = ItemCollection{a, a, vpMkIRI('b'), &Object{ID: a, Type: NoteType}, vpMkIRI('c')}
	case 6:
		a := vpMkIRI('a')
		x = &ItemCollection{&Object{ID: a, Type: NoteType}, a, vpMkIRI('b'), a}
	case 7:
		a := vpMkIRI('a')
		x = IRIs{a, a, vpMkIRI('b'), a}
	case 3: // lists held by pointer: a helper that gets the caller's own pointer must not store into it
		x = &IRIs{vpMkIRI('c'), IRI(""), vpMkIRI('a'), IRI("-")}
	case 4:
		x = &ItemCollection{vpMkIRI('c'), nil, &Object{ID: vpMkIRI('b'), Type: NoteType}, vpMkIRI('a')}
	case 0:
		x = vpMkIRI('a')
	case 1:
		x = IRIs{vpMkIRI('a'), vpMkIRI('b')}
	default:
		x = ItemCollection{vpMkIRI('c'), &Object{ID: vpMkIRI('b'), Type: NoteType, Published: vpTimes[1], To: ItemCollection{vpMkIRI('t')}}, &Object{ID: vpMkIRI('a'), Type: NoteType, Published: vpTimes[0]}}
	}
	op := vpReadOps[vpChoice(len(vpReadOps))]
	vpFreeze()
	var r1, r2 []byte
	p := vpMayPanic(func() { r1 = op.run(x) })
	vpAssert("lists/no-panic/"+op.name, !p)
	p = vpMayPanic(func() { r2 = op.run(x) })
	if op.name != "GobEncode" {
		vpAssert("lists/same-answer-twice/"+op.name, !p && bytes.Equal(r1, r2))
	}
	vpReach("end")
}

// decoding is read-only with respect to everything that existed before the call (no hidden shared
// state: a package-level parser or buffer would make concurrent decoders of unrelated documents race):
// every JSON and text decoding entry point of the current source, on well-formed inputs of several kinds
func vpH_C12_decoders() {
	e := vpChoice(len(vpDecodeEntries))
	name := vpDecodeEntries[e]
	if vpIsGobEntry(name) {
		vpReach("end")
		return
	}
	docs := []string{`"text"`, `{"en":"a","fr":"b"}`, `["a",{"en":"b"}]`, `{"id":"https://h.ex/u","type":"Note","name":"n","to":["https://h.ex/t"]}`, `"https://h.ex/i"`, `["https://h.ex/a","https://h.ex/b"]`, `{"content":"c","mediaType":"text/x"}`, `text`}
	d := []byte(docs[vpChoice(len(docs))])
	vpFreeze()
	p := vpMayPanic(func() { _, _ = vpDecodeEntry(e, d) })
	vpAssert("decoders/no-panic/"+name, !p)
	p = vpMayPanic(func() { _, _ = vpDecodeEntry(e, d) })
	vpAssert("decoders/no-panic-second/"+name, !p)
	vpReach("end")
}

func vpW_C12_twin() {
	x := vpPopulated(0)
	vpFreeze()
	_, _ = vpMarshalItem(x)
	vpAssert("twin", false)
}
