package activitypub

import (
	"bytes"
	"encoding/gob"
	"fmt"
)

// C04 — decoders are total: no input makes them panic, hang or blow the stack; and whatever they
// return can be inspected, compared and re-encoded without panicking.

// vpC04FollowUp inspects, compares and re-encodes whatever a decoder returned.
func vpC04FollowUp(cell string, v any) {
	p := vpMayPanic(func() {
		switch x := v.(type) {
		case nil:
		case Item:
			_ = IsNil(x)
			_ = NotEmpty(x)
			if !IsNil(x) {
				_ = ItemsEqual(x, x)
				_ = x.GetLink()
				_ = x.GetType()
			}
			_, _ = vpMarshalItem(x)
			_, _ = GobEncode(x)
			_ = DerefItem(x)
			_ = fmt.Sprintf("%s|%v", x, x)
		case *NaturalLanguageValues:
			_, _ = x.MarshalJSON()
			_, _ = x.GobEncode()
			_ = x.Equals(*x)
			_ = x.First()
		case *LangRefValue:
			_, _ = x.MarshalJSON()
			_, _ = x.GobEncode()
		case *Content:
			_, _ = x.GobEncode()
			_ = x.String()
		case *LangRef:
			_, _ = x.GobEncode()
		case *IRIs:
			_, _ = x.MarshalJSON()
			_, _ = x.GobEncode()
			_ = x.Contains(IRI("https://h.ex/a"))
		case *Source:
			_, _ = x.MarshalJSON()
			_, _ = x.GobEncode()
		case *PublicKey:
			_, _ = x.MarshalJSON()
			_, _ = x.GobEncode()
		case *Endpoints:
			_, _ = x.MarshalJSON()
			_, _ = x.GobEncode()
		case *MimeType:
			_, _ = x.MarshalJSON()
		case *ActivityVocabularyType:
			_, _ = x.MarshalJSON()
		}
	})
	vpAssert("follow-up/no-panic/"+cell, !p)
}

func vpIsGobEntry(name string) bool {
	n := len(name)
	return (n >= 9 && name[n-9:] == "GobDecode") || (n >= 15 && name[n-15:] == "UnmarshalBinary")
}

// RAW: n completely unconstrained bytes at every entry point
func vpC04Raw(n int, gobToo bool) {
	e := vpChoice(len(vpDecodeEntries))
	name := vpDecodeEntries[e]
	if vpIsGobEntry(name) != gobToo {
		vpReach("end")
		return
	}
	data := vpBytes(n)
	var v any
	var err error
	p := vpMayPanic(func() { v, err = vpDecodeEntry(e, data) })
	vpAssert("raw/no-panic/"+name, !p)
	if !p && err == nil {
		vpC04FollowUp("raw/"+name, v)
	}
	vpReach("end")
}

func vpH_C04_raw0()     { vpC04Raw(0, vpBool()) }
func vpH_C04_raw1()     { vpC04Raw(1, false) }
func vpH_C04_raw1_gob() { vpC04Raw(1, true) }
func vpH_C04_raw2()     { vpC04Raw(2, false) }
func vpT_C04_raw2_gob() { vpC04Raw(2, true) }
func vpT_C04_raw3()     { vpC04Raw(3, false) }

var vpC04Kinds = []string{
	`"https://h.ex/x"`, `"text"`, `""`, `7`, `-1.5e3`, `123456789012345678901234567890`, `true`, `null`, `{}`, `[]`, `[[]]`, `[1]`, `[null]`,
	`{"id":"https://h.ex/n","type":"Note"}`, `{"name":"x"}`, `{"type":"Zebra"}`, `[{"type":"Person","id":"https://h.ex/p"},"https://h.ex/q"]`,
	`{"en":"a","fr":["b"]}`, `{"type":["Note"]}`, `"2020-02-30T25:61:61Z"`, `"P1Y2M3DT4H5M6S"`,
}

var vpC04Skeletons = []string{"Note", "Person", "Like", "Arrive", "Question", "Collection", "OrderedCollectionPage", "Place", "Profile", "Relationship", "Tombstone", "Mention", ""}

// SKEL: a document of each family in which one term carries a value of an unexpected kind
func vpC04Skel(si int) {
	typ := vpC04Skeletons[si]
	term := vpDecoderTerms[vpChoice(len(vpDecoderTerms))]
	kind := vpC04Kinds[vpChoice(len(vpC04Kinds))]
	if term == "type" || term == "id" {
		vpReach("end")
		return
	}
	doc := `{"id":"https://h.ex/` + string([]byte{vpAlnum()}) + `","type":"` + typ + `","` + term + `":` + kind + `}`
	cell := typ + "/" + term
	var it Item
	var err error
	p := vpMayPanic(func() { it, err = UnmarshalJSON([]byte(doc)) })
	vpAssert("skel/no-panic/"+cell, !p)
	if !p && err == nil {
		vpC04FollowUp("skel/"+cell, it)
	}
	vpReach("end")
}

func vpH_C04_skel_note()   { vpC04Skel(0) }
func vpH_C04_skel_person() { vpC04Skel(1) }
func vpH_C04_skel_like()   { vpC04Skel(2) }
func vpH_C04_skel_rest()   { vpC04Skel(3 + vpChoice(len(vpC04Skeletons)-3)) }

// HOLE: an unconstrained n-byte hole as the value of a term, as a member name, and between members
func vpC04Hole(n int) {
	hole := string(vpBytes(n))
	term := []string{"name", "icon", "to", "published", "source", "totalItems", "closed", "publicKey", "endpoints", "object"}[vpChoice(10)]
	typ := []string{"Note", "Person", "Like", "Question", "OrderedCollection"}[vpChoice(5)]
	var doc string
	where := vpChoice(3)
	switch where {
	case 0:
		doc = `{"type":"` + typ + `","` + term + `":` + hole + `}`
	case 1:
		doc = `{"type":"` + typ + `","` + hole + `":1}`
	default:
		doc = `{"type":"` + typ + `"` + hole + `"id":"https://h.ex/i"}`
	}
	cell := typ + "/" + term + "/" + string([]byte{'0' + byte(where)})
	var it Item
	var err error
	p := vpMayPanic(func() { it, err = UnmarshalJSON([]byte(doc)) })
	vpAssert("hole/no-panic/"+cell, !p)
	if !p && err == nil {
		vpC04FollowUp("hole/"+cell, it)
	}
	vpReach("end")
}

func vpH_C04_hole1() { vpC04Hole(1) }
func vpH_C04_hole2() { vpC04Hole(2) }
func vpT_C04_hole3() { vpC04Hole(3) }

// deep nesting stays within the parser's depth limit and never recurses without bound
func vpH_C04_deep() {
	depth := []int{2, 10, 40}[vpChoice(3)]
	var b []byte
	open, close := `{"icon":`, `}`
	if vpBool() {
		open, close = `[`, `]`
	}
	for i := 0; i < depth; i++ {
		b = append(b, open...)
	}
	b = append(b, `"https://h.ex/x"`...)
	for i := 0; i < depth; i++ {
		b = append(b, close...)
	}
	var it Item
	var err error
	p := vpMayPanic(func() { it, err = UnmarshalJSON(b) })
	vpAssert("deep/no-panic", !p)
	if !p && err == nil {
		vpC04FollowUp("deep", it)
	}
	vpReach("end")
}

// GOB: a valid gob stream carrying an arbitrary small property map (keys from the decoders'
// vocabulary, arbitrary bytes or nested streams as values) at every gob entry point
func vpC04GobMap(rounds int) {
	e := vpChoice(len(vpDecodeEntries))
	name := vpDecodeEntries[e]
	n := len(name)
	if !(n >= 9 && name[n-9:] == "GobDecode") {
		vpReach("end")
		return
	}
	mm := map[string][]byte{}
	if vpBool() {
		mm["type"] = []byte([]string{"Note", "Person", "Like"}[vpChoice(3)])
	}
	keys := []string{"id", "type", "name", "icon", "to", "published", "duration", "totalItems", "source", "publicKey", "closed", "latitude", "items", "orderedItems", "object"}
	for i := 0; i < rounds; i++ {
		k := keys[vpChoice(len(keys))]
		switch vpChoice(4) {
		case 0:
			mm[k] = vpBytes(1)
		case 1:
			mm[k] = []byte{}
		case 2:
			mm[k] = []byte("Note")
		default:
			inner := map[string][]byte{"type": []byte("Person"), "name": vpBytes(1)}
			bb := bytes.Buffer{}
			_ = gob.NewEncoder(&bb).Encode(inner)
			mm[k] = bb.Bytes()
		}
	}
	bb := bytes.Buffer{}
	vpAssert("gobmap/encodes", gob.NewEncoder(&bb).Encode(mm) == nil)
	var v any
	var err error
	p := vpMayPanic(func() { v, err = vpDecodeEntry(e, bb.Bytes()) })
	vpAssert("gobmap/no-panic/"+name, !p)
	if !p && err == nil {
		vpC04FollowUp("gobmap/"+name, v)
	}
	vpReach("end")
}

func vpH_C04_gobmap() { vpC04GobMap(1) }

// streams of the other wire shapes the decoders sniff: lists of streams, lists of IRIs, a bare value
func vpH_C04_gobshapes() {
	bb := bytes.Buffer{}
	switch vpChoice(4) {
	case 0:
		_ = gob.NewEncoder(&bb).Encode([][]byte{vpBytes(1), {}, []byte("https://h.ex/a")})
	case 1:
		_ = gob.NewEncoder(&bb).Encode([]byte{vpByte()})
	case 2:
		_ = gob.NewEncoder(&bb).Encode(int64(vpInt(-3, 3)))
	default:
		_ = gob.NewEncoder(&bb).Encode([]kv{{K: vpBytes(1), V: vpBytes(1)}, {}})
	}
	e := vpChoice(len(vpDecodeEntries))
	name := vpDecodeEntries[e]
	if !vpIsGobEntry(name) {
		vpReach("end")
		return
	}
	var v any
	var err error
	p := vpMayPanic(func() { v, err = vpDecodeEntry(e, bb.Bytes()) })
	vpAssert("gobshapes/no-panic/"+name, !p)
	if !p && err == nil {
		vpC04FollowUp("gobshapes/"+name, v)
	}
	vpReach("end")
}

// WORK: decoding does work proportional to the document. The measure is one the native build can
// observe too: the number of values the decoder asks the type registry for. A chain of d objects
// nested through one item-valued term must not make the decoder build more than a small multiple of
// d values (a term read twice at every level would make it 2^d).
func vpC04Work(depth int) {
	typ := vpC04Skeletons[vpChoice(len(vpC04Skeletons)-1)]
	term := vpDecoderTerms[vpChoice(len(vpDecoderTerms))]
	if term == "type" || term == "id" {
		vpReach("end")
		return
	}
	var b []byte
	for i := 0; i < depth; i++ {
		b = append(b, `{"id":"https://h.ex/`...)
		b = append(b, 'a'+byte(i))
		b = append(b, `","type":"`+typ+`","`+term+`":`...)
	}
	b = append(b, `"https://h.ex/leaf"`...)
	for i := 0; i < depth; i++ {
		b = append(b, '}')
	}
	calls := 0
	save := ItemTyperFunc
	ItemTyperFunc = func(t ActivityVocabularyType) (Item, error) {
		calls++
		return GetItemByType(t)
	}
	p := vpMayPanic(func() { _, _ = UnmarshalJSON(b) })
	ItemTyperFunc = save
	cell := typ + "/" + term
	vpAssert("work/no-panic/"+cell, !p)
	vpAssert("work/values-built-proportional-to-document/"+cell, calls <= 3*depth)
	vpReach("end")
}

// EQWORK: the same proxy for the comparisons the decoders make (an array's members are compared with
// each other while it is loaded) and that a caller makes on what was decoded: two chains of d values
// with the same ids, nested through inReplyTo, end in a leaf that counts how often the comparison
// reaches it (the leaf is a twin of Object from another scope, handed out by the type registry hook
// for one type name). Comparing the chains must reach the leaf a small multiple of d times, not 2^d.
type vpCountObject Object

var vpLeafVisits int

func (c *vpCountObject) GetID() ID    { return c.ID }
func (c *vpCountObject) GetLink() IRI { return c.ID }
func (c *vpCountObject) GetType() ActivityVocabularyType {
	vpLeafVisits++
	return c.Type
}
func (c *vpCountObject) IsLink() bool       { return false }
func (c *vpCountObject) IsObject() bool     { return true }
func (c *vpCountObject) IsCollection() bool { return false }

func vpC04EqWork(depth int) {
	typ := []string{"Like", "Travel", "Question", "Person", "Article", "OrderedCollection", "CollectionPage", "Place"}[vpChoice(8)]
	chain := func() []byte {
		var b []byte
		for i := 0; i < depth; i++ {
			b = append(b, `{"id":"https://h.ex/`...)
			b = append(b, 'a'+byte(i))
			b = append(b, `","type":"`+typ+`","inReplyTo":`...)
		}
		b = append(b, `{"id":"https://h.ex/leaf","type":"Note"}`...)
		for i := 0; i < depth; i++ {
			b = append(b, '}')
		}
		return b
	}
	save := ItemTyperFunc
	ItemTyperFunc = func(t ActivityVocabularyType) (Item, error) {
		if t == NoteType {
			return &vpCountObject{}, nil
		}
		return GetItemByType(t)
	}
	vpLeafVisits = 0
	var one, two Item
	way := vpChoice(2)
	p := vpMayPanic(func() {
		if way == 0 {
			// the decoder's own comparison: the two chains are the members of one array
			doc := append(append(append([]byte{'['}, chain()...), ','), chain()...)
			doc = append(doc, ']')
			_, _ = UnmarshalJSON(doc)
		} else {
			one, _ = UnmarshalJSON(chain())
			two, _ = UnmarshalJSON(chain())
			vpLeafVisits = 0
			_ = ItemsEqual(one, two)
		}
	})
	ItemTyperFunc = save
	cell := typ + "/" + []string{"array-members", "decoded-values"}[way]
	vpAssert("eqwork/no-panic/"+cell, !p)
	vpAssert("eqwork/comparisons-proportional-to-depth/"+cell, vpLeafVisits <= 8+4*depth)
	vpReach("end")
}

func vpH_C04_eqwork6()  { vpC04EqWork(6) }
func vpT_C04_eqwork12() { vpC04EqWork(12) }

func vpH_C04_work6()  { vpC04Work(6) }
func vpT_C04_work10() { vpC04Work(10) }

// STRHOLE: 1-2 (thorough 3) unconstrained bytes as the content of a JSON string at every term the
// decoders look up, in a document of every family: the parsers of string contents (instants, xsd
// durations, media types, IRIs, language tags, type names) are total
func vpC04StrHole(n int, special bool) { vpC04StrHoleT(n, special, 7) }

func vpC04StrHoleT(n int, special bool, nterms int) {
	typ := vpC04Skeletons[vpChoice(len(vpC04Skeletons)-1)]
	term := vpDecoderTerms[vpChoice(len(vpDecoderTerms))]
	if special {
		// the terms whose string content has a parser of its own (instants, durations), two families
		typ = []string{"Question", "Tombstone"}[vpChoice(1+nterms/7)]
		term = []string{"duration", "closed", "published", "updated", "startTime", "endTime", "deleted"}[vpChoice(nterms)]
	}
	hole := vpBytes(n)
	for _, c := range hole {
		vpAssume(c != '"' && c != '\\' && c >= 0x20)
	}
	var doc string
	if term == "type" {
		doc = `{"id":"https://h.ex/i","type":"` + string(hole) + `"}`
	} else {
		doc = `{"id":"https://h.ex/i","type":"` + typ + `","` + term + `":"` + string(hole) + `"}`
	}
	cell := typ + "/" + term
	var it Item
	var err error
	p := vpMayPanic(func() { it, err = UnmarshalJSON([]byte(doc)) })
	vpAssert("strhole/no-panic/"+cell, !p)
	if !p && err == nil {
		vpC04FollowUp("strhole/"+cell, it)
	}
	vpReach("end")
}

// FIXED: string contents longer than the symbolic holes reach - separators, astral characters as raw
// bytes and as surrogate escapes, a lone surrogate, control escapes, an escaped solidus - at every term,
// in every family; what is decoded is then inspected, compared, formatted and re-encoded
var vpC04FixedContents = []string{`a b`, `a\xe2\x80\xa8b`, ` `, `😀`, `\xf0\x9f\x98\x80`, `\ud800x`, `\u0000\u001f`, `\/\b\f`, `\x7f`, `é\xc3\xa9`}

func vpC04Unhex(s string) []byte {
	// \xNN in the table stands for the raw byte (the other escapes stay as written: they are JSON's)
	var out []byte
	for i := 0; i < len(s); i++ {
		if s[i] == '\\' && i+3 < len(s) && s[i+1] == 'x' {
			h := func(c byte) byte {
				if c >= 'a' {
					return c - 'a' + 10
				}
				return c - '0'
			}
			out = append(out, h(s[i+2])<<4|h(s[i+3]))
			i += 3
			continue
		}
		out = append(out, s[i])
	}
	return out
}

func vpH_C04_fixed_contents() {
	typ := vpC04Skeletons[vpChoice(len(vpC04Skeletons)-1)]
	term := vpDecoderTerms[vpChoice(len(vpDecoderTerms))]
	content := vpC04Unhex(vpC04FixedContents[vpChoice(len(vpC04FixedContents))])
	var doc []byte
	if term == "type" {
		doc = append(append([]byte(`{"id":"https://h.ex/i","type":"`), content...), `"}`...)
	} else {
		doc = append(append([]byte(`{"id":"https://h.ex/i","type":"`+typ+`","`+term+`":"`), content...), `"}`...)
	}
	cell := typ + "/" + term
	var it Item
	var err error
	p := vpMayPanic(func() { it, err = UnmarshalJSON(doc) })
	vpAssert("fixed-contents/no-panic/"+cell, !p)
	if !p && err == nil {
		vpC04FollowUp("fixed-contents/"+cell, it)
	}
	vpReach("end")
}

func vpH_C04_strhole1()          { vpC04StrHole(1, false) }
func vpT_C04_strhole2_duration() { vpC04StrHoleT(2, true, 1) }
func vpT_C04_strhole2_instants() { vpC04StrHole(2, true) }
func vpT_C04_strhole2()          { vpC04StrHole(2, false) }

// type names the library uses internally for non-struct items (IRI, lists) borne by a document
func vpH_C04_internal_type_names() {
	names := []string{"IRI", "IRICollection", "ItemCollection", "", "iri", "Iri"}
	name := names[vpChoice(len(names))]
	var doc string
	switch vpChoice(3) {
	case 0:
		doc = `{"id":"https://h.ex/i","type":"` + name + `","name":"n"}`
	case 1:
		doc = `{"id":"https://h.ex/o","type":"Note","icon":{"id":"https://h.ex/i","type":"` + name + `"}}`
	default:
		doc = `{"id":"https://h.ex/o","type":"Like","object":[{"type":"` + name + `","id":"https://h.ex/i"},"https://h.ex/j"]}`
	}
	var it Item
	var err error
	p := vpMayPanic(func() { it, err = UnmarshalJSON([]byte(doc)) })
	vpAssert("internal-type/no-panic/"+name, !p)
	if !p && err == nil {
		vpC04FollowUp("internal-type/"+name, it)
	}
	// the same documents through every JSON entry point of the vocabulary types (their own UnmarshalJSON
	// keeps the Go type whatever the document's type member says)
	e := vpChoice(len(vpDecodeEntries))
	ename := vpDecodeEntries[e]
	if !vpIsGobEntry(ename) {
		var v any
		p = vpMayPanic(func() { v, err = vpDecodeEntry(e, []byte(doc)) })
		vpAssert("internal-type/no-panic/"+name+"/"+ename, !p)
		if !p && err == nil {
			vpC04FollowUp("internal-type/"+name+"/"+ename, v)
		}
	}
	vpReach("end")
}

func vpW_C04_twin() {
	_, _ = UnmarshalJSON(vpBytes(1))
	vpAssert("twin", false)
}
