package activitypub

// C16 — flattening replaces embedded items by their own ids and nothing else.

func vpFieldIndex(ti int, name string) int {
	for i, f := range vpFieldsOf(ti) {
		if f.Name == name {
			return i
		}
	}
	return -1
}

// vpTypeIndexOf finds the vocabulary struct type of a value (pointer form).
func vpTypeIndexOf(it Item) int {
	for i := range vpTypeNames {
		if vpSameGoType(vpNew(i), it) {
			return i
		}
	}
	return -1
}

// vpGetItemField / vpGetListField read a property through the struct's own field (generated
// accessors over the current struct definitions), not through a typed view.
func vpGetItemField(it Item, name string) Item {
	ti := vpTypeIndexOf(it)
	if ti < 0 {
		return nil
	}
	f := vpFieldIndex(ti, name)
	if f < 0 {
		return nil
	}
	r, _ := vpFieldBox(it, f).(Item)
	return r
}

func vpGetListField(it Item, name string) ItemCollection {
	ti := vpTypeIndexOf(it)
	if ti < 0 {
		return nil
	}
	f := vpFieldIndex(ti, name)
	if f < 0 {
		return nil
	}
	r, _ := vpFieldBox(it, f).(ItemCollection)
	return r
}

var vpC16Types = []string{"Activity", "IntransitiveActivity", "Question", "Object", "Actor"}

func vpC16Positions(tname string) []string {
	common := []string{"AttributedTo", "Replies", "Likes", "Shares"}
	switch tname {
	case "Activity":
		return append([]string{"Actor", "Object", "Target", "Result", "Origin", "Instrument"}, common...)
	case "IntransitiveActivity", "Question":
		return append([]string{"Actor", "Target", "Result", "Origin", "Instrument"}, common...)
	}
	return common
}

// single-item positions
func vpC16Single(tname string) {
	ti := vpTypeIndex(tname)
	positions := vpC16Positions(tname)
	pos := positions[vpChoice(len(positions))]
	shape := []int{0, 1, 2, 3, 4, 6, 10, 17, 18, 5, 7}[vpChoice(11)]
	x := vpNew(ti)
	vpSetField(x, 0, 0, 'i')
	if vpBool() {
		x = vpPopulated(ti) // every other property set: none of them may change
	}
	f := vpFieldIndex(ti, pos)
	vpSetField(x, f, shape, 'a')
	// some unrelated properties that must survive
	vpSetField(x, vpFieldIndex(ti, "Name"), 0, 'n')
	vpSetField(x, vpFieldIndex(ti, "Icon"), 1, 'c')
	vpSetField(x, vpFieldIndex(ti, "Tag"), 2, 't')
	before := vpCloneItem(x)
	orig := vpGetItemField(x, pos)
	cell := tname + "." + pos + "/" + string([]byte{'0' + byte(shape)})

	res := FlattenProperties(x)
	vpAssert("returns-same-value/"+cell, res == x)
	got := vpGetItemField(x, pos)
	switch shape {
	case 1, 4, 6:
		// IsIRI converts the interface, so it also accepts an IRI stored through a typed view
		vpAssert("object-with-id-becomes-its-id/"+cell, got != nil && IsIRI(got) && got.GetLink() == orig.GetID())
	case 0:
		vpAssert("iri-unchanged/"+cell, got != nil && IsIRI(got) && got.GetLink() == orig.GetLink())
	case 3, 10, 17, 18:
		vpAssert("link-unchanged/"+cell, got == orig)
	case 5:
		// a list of plain IRIs in a single-item position holds nothing to replace: it stays a list of those IRIs
		vpAssert("iri-list-unchanged/"+cell, vpEqItem(got, orig))
	case 7:
		// ... a one-member list may come back as its member (the documented normal form of single-item properties)
		ol, _ := orig.(ItemCollection)
		vpAssert("one-iri-list-unchanged-or-its-member/"+cell, vpEqItem(got, orig) || (len(ol) == 1 && vpEqItem(got, ol[0])))
	case 2:
		vpAssert("idless-object-unchanged/"+cell, got == orig)
	}
	vpDiffItems("others-unchanged/"+cell, before, x, func(n string) bool { return n == pos })
	once := vpCloneItem(x)
	FlattenProperties(x)
	vpDiffItems("idempotent/"+cell, once, x, nil)
	vpReach("end")
}

// vpSetItemField puts v at the named single-item position of x (one of the four holder types)
func vpSetItemField(x Item, pos string, v Item) {
	common := func(o *Object) {
		switch pos {
		case "AttributedTo":
			o.AttributedTo = v
		case "Replies":
			o.Replies = v
		case "Likes":
			o.Likes = v
		case "Shares":
			o.Shares = v
		}
	}
	switch a := x.(type) {
	case *Object:
		common(a)
	case *Actor:
		switch pos {
		case "AttributedTo":
			a.AttributedTo = v
		case "Replies":
			a.Replies = v
		case "Likes":
			a.Likes = v
		case "Shares":
			a.Shares = v
		}
	case *Activity:
		switch pos {
		case "Actor":
			a.Actor = v
		case "Object":
			a.Object = v
		case "Target":
			a.Target = v
		case "Result":
			a.Result = v
		case "Origin":
			a.Origin = v
		case "Instrument":
			a.Instrument = v
		case "AttributedTo":
			a.AttributedTo = v
		case "Replies":
			a.Replies = v
		case "Likes":
			a.Likes = v
		case "Shares":
			a.Shares = v
		}
	case *Question:
		switch pos {
		case "Actor":
			a.Actor = v
		case "Target":
			a.Target = v
		case "Result":
			a.Result = v
		case "Origin":
			a.Origin = v
		case "Instrument":
			a.Instrument = v
		case "AttributedTo":
			a.AttributedTo = v
		case "Replies":
			a.Replies = v
		case "Likes":
			a.Likes = v
		case "Shares":
			a.Shares = v
		}
	}
}

// an embedded value of every non-collection type that has an id, pointer and value forms, at every
// single-item position: it becomes its id
func vpH_C16_embedded_types() {
	tname := []string{"Object", "Activity", "Question", "Actor"}[vpChoice(4)]
	ti := vpTypeIndex(tname)
	positions := vpC16Positions(tname)
	pos := positions[vpChoice(len(positions))]
	embNames := []string{"Object", "Actor", "Activity", "IntransitiveActivity", "Question", "Place", "Profile", "Relationship", "Tombstone"}
	en := embNames[vpChoice(len(embNames))]
	emb := vpNew(vpTypeIndex(en))
	vpSetID(emb, "https://h.ex/emb")
	_ = OnObject(emb, func(o *Object) error {
		o.Name = NaturalLanguageValues{{Ref: NilLangRef, Value: Content("n")}}
		if en == "IntransitiveActivity" {
			o.Type = []ActivityVocabularyType{TravelType, ArriveType, ""}[vpChoice(3)]
		}
		return nil
	})
	if vpBool() {
		emb = vpValueOf(emb)
	}
	x := vpNew(ti)
	vpSetField(x, 0, 0, 'i')
	vpSetItemField(x, pos, emb)
	cell := tname + "." + pos + "/" + en
	res := FlattenProperties(x)
	vpAssert("embedded-types/returns-same-value/"+cell, res == x)
	got := vpGetItemField(x, pos)
	vpAssert("embedded-types/becomes-its-id/"+cell, got != nil && IsIRI(got) && got.GetLink() == "https://h.ex/emb")
	vpReach("end")
}

// a list held at a single-item position, with members of every kind: members with an id become
// their id, links and id-less objects stay what they were, no IRI appears that was not there
func vpH_C16_list_in_single() {
	tname := []string{"Object", "Activity", "Question", "Actor"}[vpChoice(4)]
	ti := vpTypeIndex(tname)
	positions := vpC16Positions(tname)
	pos := positions[vpChoice(len(positions))]
	link := &Link{Type: MentionType, Href: "https://h.ex/l"}
	linkID := &Link{ID: "https://h.ex/lid", Type: MentionType, Href: "https://h.ex/l2"}
	idless := &Object{Type: NoteType, Name: NaturalLanguageValues{{Ref: NilLangRef, Value: Content("n")}}}
	withID := &Object{ID: "https://h.ex/w", Type: NoteType}
	list := ItemCollection{IRI("https://h.ex/i1"), link, idless, withID, linkID}
	x := vpNew(ti)
	vpSetField(x, 0, 0, 'i')
	vpSetItemField(x, pos, list)
	cell := tname + "." + pos
	FlattenProperties(x)
	got, _ := vpGetItemField(x, pos).(ItemCollection)
	vpAssert("list-in-single/still-a-list-of-five/"+cell, len(got) == 5)
	if len(got) == 5 {
		vpAssert("list-in-single/iri-kept/"+cell, IsIRI(got[0]) && got[0].GetLink() == "https://h.ex/i1")
		vpAssert("list-in-single/link-kept/"+cell, got[1] == Item(link))
		vpAssert("list-in-single/idless-kept/"+cell, got[2] == Item(idless))
		// (the library flattens the members of a list in attributedTo, replies, likes and shares; a list
		// in one of an activity's own positions is kept as it is - the statement speaks of embedded
		// objects, and either reading leaves no member changed into something else)
		if pos == "AttributedTo" || pos == "Replies" || pos == "Likes" || pos == "Shares" {
			vpAssert("list-in-single/object-became-id/"+cell, IsIRI(got[3]) && got[3].GetLink() == "https://h.ex/w")
		} else {
			vpAssert("list-in-single/object-kept-or-its-id/"+cell, got[3] == Item(withID) || (IsIRI(got[3]) && got[3].GetLink() == "https://h.ex/w"))
		}
		vpAssert("list-in-single/link-with-id-kept/"+cell, got[4] == Item(linkID))
	}
	vpReach("end")
}

// a link without an id whose target is also named by another member: two different members (the link
// has no identity of its own, its target is not its id) - both stay, in every addressing list
func vpH_C16_link_target_named() {
	tname := []string{"Object", "Activity", "Actor"}[vpChoice(3)]
	x := vpNew(vpTypeIndex(tname))
	vpSetField(x, 0, 0, 'i')
	target := IRI("https://h.ex/target")
	link := &Link{Type: MentionType, Href: target}
	var list ItemCollection
	order := vpChoice(3)
	switch order {
	case 0:
		list = ItemCollection{link, target}
	case 1:
		list = ItemCollection{target, link}
	default:
		list = ItemCollection{link, &Object{ID: target, Type: NoteType}, IRI("https://h.ex/other")}
	}
	pos := []string{"To", "Bto", "CC", "BCC", "Audience"}[vpChoice(5)]
	_ = OnObject(x, func(o *Object) error {
		switch pos {
		case "To":
			o.To = list
		case "Bto":
			o.Bto = list
		case "CC":
			o.CC = list
		case "BCC":
			o.BCC = list
		default:
			o.Audience = list
		}
		return nil
	})
	FlattenProperties(x)
	got := vpGetListField(x, pos)
	cell := tname + "." + pos + "/" + string([]byte{'0' + byte(order)})
	vpAssert("link-target-named/all-kept/"+cell, len(got) == len(list))
	if len(got) == len(list) {
		li := 0
		if order == 1 {
			li = 1
		}
		vpAssert("link-target-named/link-stays/"+cell, got[li] == Item(link))
		vpAssert("link-target-named/other-is-the-target/"+cell, IsIRI(got[1-li]) && got[1-li].GetLink() == target)
	}
	vpReach("end")
}

// every object, actor and activity type NAME of the vocabulary (written out here, not taken from the
// library's own lists) on the holder: the embedded values with an id become their ids
var vpC16Names = []ActivityVocabularyType{"Object", "Article", "Audio", "Document", "Event", "Image", "Note", "Page", "Place", "Profile",
	"Relationship", "Tombstone", "Video", "Application", "Group", "Organization", "Person", "Service", "Accept", "Add", "Announce",
	"Arrive", "Block", "Create", "Delete", "Dislike", "Flag", "Follow", "Ignore", "Invite", "Join", "Leave", "Like", "Listen", "Move", "Offer",
	"Question", "Reject", "Read", "Remove", "TentativeReject", "TentativeAccept", "Travel", "Undo", "Update", "View", "Activity", "IntransitiveActivity", "Actor", ""}

func vpH_C16_every_name() {
	tn := vpC16Names[vpChoice(len(vpC16Names))]
	var x Item
	switch tn {
	case "Place":
		x = &Place{}
	case "Profile":
		x = &Profile{}
	case "Relationship":
		x = &Relationship{}
	case "Tombstone":
		x = &Tombstone{}
	case "Application", "Group", "Organization", "Person", "Service", "Actor":
		x = &Actor{}
	case "Question":
		x = &Question{}
	case "Arrive", "Travel", "IntransitiveActivity":
		x = &IntransitiveActivity{}
	case "":
		x = &Object{}
	default:
		if vpC16IsActivityName(tn) {
			x = &Activity{}
		} else {
			x = &Object{}
		}
	}
	emb := &Object{ID: "https://h.ex/emb", Type: NoteType, Name: NaturalLanguageValues{{Ref: NilLangRef, Value: Content("n")}}}
	who := &Actor{ID: "https://h.ex/who", Type: PersonType}
	_ = OnObject(x, func(o *Object) error {
		o.ID, o.Type = "https://h.ex/i", tn
		o.AttributedTo = emb
		o.Replies = &Object{ID: "https://h.ex/r", Type: NoteType}
		o.To = ItemCollection{who, IRI("https://h.ex/other")}
		o.CC = ItemCollection{who}
		return nil
	})
	res := FlattenProperties(x)
	vpAssert("every-name/returns-same-value/"+string(tn), res == x)
	_ = OnObject(x, func(o *Object) error {
		vpAssert("every-name/attributedTo-became-id/"+string(tn), o.AttributedTo != nil && IsIRI(o.AttributedTo) && o.AttributedTo.GetLink() == "https://h.ex/emb")
		vpAssert("every-name/replies-became-id/"+string(tn), o.Replies != nil && IsIRI(o.Replies) && o.Replies.GetLink() == "https://h.ex/r")
		vpAssert("every-name/addressee-became-id/"+string(tn), len(o.To) == 2 && IsIRI(o.To[0]) && o.To[0].GetLink() == "https://h.ex/who" && IsIRI(o.To[1]))
		return nil
	})
	vpReach("end")
}

func vpC16IsActivityName(tn ActivityVocabularyType) bool {
	for i, n := range vpC16Names {
		if n == tn {
			return i >= 18 && n != "Actor" && n != ""
		}
	}
	return false
}

func vpH_C16_single_Activity()             { vpC16Single("Activity") }
func vpH_C16_single_IntransitiveActivity() { vpC16Single("IntransitiveActivity") }
func vpH_C16_single_Question()             { vpC16Single("Question") }
func vpH_C16_single_Object()               { vpC16Single("Object") }
func vpH_C16_single_Actor()                { vpC16Single("Actor") }

// addressing lists: members with pairwise distinct ids, nil entries allowed
func vpC16List(tname string, n int) {
	ti := vpTypeIndex(tname)
	lists := []string{"To", "Bto", "CC", "BCC", "Audience"}
	pos := lists[vpChoice(len(lists))]
	x := vpNew(ti)
	vpSetField(x, 0, 0, 'i')
	var col ItemCollection
	var shapes []int
	for i := 0; i < n; i++ {
		s := vpChoice(6)
		shapes = append(shapes, s)
		tag := byte('a' + 2*i)
		switch s {
		case 0:
			col = append(col, vpMkIRI(tag))
		case 1:
			col = append(col, &Object{ID: vpMkIRI(tag), Type: NoteType})
		case 2:
			col = append(col, &Object{Type: NoteType, Name: vpMk_NLV(0, tag)})
		case 3:
			col = append(col, &Link{Type: MentionType, Href: vpMkIRI(tag)})
		case 5:
			col = append(col, &Link{ID: vpMkIRI(tag + 1), Type: MentionType, Href: vpMkIRI(tag)})
		default:
			col = append(col, &Actor{ID: vpMkIRI(tag), Type: PersonType})
		}
	}
	orig := make(ItemCollection, len(col))
	copy(orig, col)
	_ = OnObject(x, func(o *Object) error {
		switch pos {
		case "To":
			o.To = col
		case "Bto":
			o.Bto = col
		case "CC":
			o.CC = col
		case "BCC":
			o.BCC = col
		case "Audience":
			o.Audience = col
		}
		return nil
	})
	vpSetField(x, vpFieldIndex(ti, "Name"), 0, 'n')
	before := vpCloneItem(x)
	FlattenProperties(x)
	got := vpGetListField(x, pos)
	cell := tname + "." + pos
	vpAssert("list-length/"+cell, len(got) == len(orig))
	if len(got) == len(orig) {
		for i, s := range shapes {
			switch s {
			case 1, 4:
				iri, isIRI := got[i].(IRI)
				vpAssert("member-with-id-becomes-its-id/"+cell, isIRI && iri == orig[i].GetID())
			case 0:
				vpAssert("member-iri-unchanged/"+cell, vpEqItem(got[i], orig[i]))
			case 2:
				vpAssert("member-idless-unchanged/"+cell, got[i] == orig[i])
			case 3, 5:
				vpAssert("member-link-unchanged/"+cell, got[i] == orig[i])
			}
		}
	}
	vpDiffItems("others-unchanged/"+cell, before, x, func(n string) bool { return n == pos })
	once := vpCloneItem(x)
	onceList := make(ItemCollection, len(got))
	copy(onceList, got)
	FlattenProperties(x)
	again := vpGetListField(x, pos)
	vpAssert("idempotent-list/"+cell, vpEq_Items(onceList, again))
	vpDiffItems("idempotent/"+cell, once, x, func(n string) bool { return n == pos })
	vpReach("end")
}

func vpH_C16_list_Object()   { vpC16List("Object", 2) }
func vpH_C16_list_Activity() { vpC16List("Activity", 2) }
func vpT_C16_list3()         { vpC16List(vpC16Types[vpChoice(len(vpC16Types))], 3) }

// duplicates: element-wise replacement, optionally followed by keeping first mentions only
func vpH_C16_list_dups() {
	id := vpMkIRI('a')
	other := vpMkIRI('b')
	first := Item(id)
	if vpBool() {
		first = &Object{ID: id, Type: NoteType}
	}
	second := Item(id)
	if vpBool() {
		second = &Actor{ID: id, Type: PersonType}
	}
	x := &Object{ID: vpMkIRI('i'), Type: NoteType, To: ItemCollection{first, other, second}}
	FlattenProperties(x)
	elementwise := len(x.To) == 3 && vpEqItem(x.To[0], id) && vpEqItem(x.To[1], other) && vpEqItem(x.To[2], id)
	deduped := len(x.To) == 2 && vpEqItem(x.To[0], id) && vpEqItem(x.To[1], other)
	vpAssert("duplicates-elementwise-or-first-kept", elementwise || deduped)
	vpReach("end")
}

// addressees whose ids differ in one component only (port, host, query value, path) are different
// addressees: each one's id is in the flattened list
func vpH_C16_list_near_ids() {
	c1, c2 := vpRange('1', '4'), vpRange('1', '4')
	vpAssume(c1 != c2)
	s1, s2 := string([]byte{c1}), string([]byte{c2})
	var ida, idb IRI
	switch vpChoice(4) {
	case 0:
		ida, idb = IRI("https://h.ex:800"+s1+"/x"), IRI("https://h.ex:800"+s2+"/x")
	case 1:
		ida, idb = IRI("https://h"+s1+".ex/x"), IRI("https://h"+s2+".ex/x")
	case 2:
		ida, idb = IRI("https://h.ex/x?k="+s1), IRI("https://h.ex/x?k="+s2)
	default:
		ida, idb = IRI("https://h.ex:8001/x"), IRI("https://h.ex/x")
	}
	mk := func(id IRI) Item {
		if vpBool() {
			return &Actor{ID: id, Type: PersonType}
		}
		return id
	}
	x := &Activity{ID: vpMkIRI('i'), Type: LikeType, Object: IRI("https://h.ex/o")}
	list := ItemCollection{mk(ida), mk(idb)}
	switch vpChoice(3) {
	case 0:
		x.To = list
	case 1:
		x.CC = list
	default:
		x.Audience = list
	}
	FlattenProperties(x)
	got := append(append(append(ItemCollection{}, x.To...), x.CC...), x.Audience...)
	vpAssert("near-ids/both-kept", len(got) == 2)
	if len(got) == 2 {
		vpAssert("near-ids/each-is-its-id", vpEqItem(got[0], ida) && vpEqItem(got[1], idb))
	}
	vpReach("end")
}

// the same addressee mentioned in two different addressing lists is flattened in both
func vpH_C16_cross_lists() {
	id := vpMkIRI('a')
	other := vpMkIRI('b')
	mk := func() Item {
		if vpBool() {
			return &Actor{ID: id, Type: PersonType}
		}
		return id
	}
	lists := []string{"To", "Bto", "CC", "BCC", "Audience"}
	l1 := vpChoice(5)
	l2 := vpChoice(5)
	if l1 == l2 {
		vpReach("end")
		return
	}
	ti := vpTypeIndex(vpC16Types[vpChoice(len(vpC16Types))])
	x := vpNew(ti)
	vpSetField(x, 0, 0, 'i')
	first, second := ItemCollection{mk(), other}, ItemCollection{other, mk()}
	set := func(name string, col ItemCollection) {
		_ = OnObject(x, func(o *Object) error {
			switch name {
			case "To":
				o.To = col
			case "Bto":
				o.Bto = col
			case "CC":
				o.CC = col
			case "BCC":
				o.BCC = col
			case "Audience":
				o.Audience = col
			}
			return nil
		})
	}
	set(lists[l1], first)
	set(lists[l2], second)
	FlattenProperties(x)
	g1, g2 := vpGetListField(x, lists[l1]), vpGetListField(x, lists[l2])
	cell := lists[l1] + "+" + lists[l2]
	vpAssert("cross/first-list/"+cell, len(g1) == 2 && vpEqItem(g1[0], id) && vpEqItem(g1[1], other))
	vpAssert("cross/second-list/"+cell, len(g2) == 2 && vpEqItem(g2[0], other) && vpEqItem(g2[1], id))
	vpReach("end")
}

// the direct entry points agree with FlattenProperties
func vpH_C16_direct() {
	act := &Activity{ID: vpMkIRI('i'), Type: LikeType, Actor: &Actor{ID: vpMkIRI('a'), Type: PersonType}, Object: &Object{ID: vpMkIRI('o'), Type: NoteType}}
	aid, oid := act.Actor.GetID(), act.Object.GetID()
	FlattenActivityProperties(act)
	vpAssert("direct/activity-actor", vpEqItem(act.Actor, aid))
	vpAssert("direct/activity-object", vpEqItem(act.Object, oid))
	it := FlattenToIRI(&Object{ID: oid})
	vpAssert("direct/toiri", vpEqItem(it, oid))
	l := &Link{Href: oid}
	vpAssert("direct/toiri-link", FlattenToIRI(l) == Item(l))
	vpReach("end")
}

func vpW_C16_twin() {
	x := &Object{ID: vpMkIRI('i'), Type: NoteType, AttributedTo: vpMkIRI('a')}
	FlattenProperties(x)
	vpAssert("twin", false)
}
