package activitypub

// C08 — types declared in another scope with exactly the layout of a vocabulary type: the helpers reach
// them through their reflection fallbacks; what they hand out is a view of the same memory, or a refusal

type vpFObject Object

func (a vpFObject) GetID() ID                       { return a.ID }
func (a vpFObject) GetLink() IRI                    { return IRI(a.ID) }
func (a vpFObject) GetType() ActivityVocabularyType { return a.Type }
func (a vpFObject) IsLink() bool                    { return false }
func (a vpFObject) IsObject() bool                  { return true }
func (a vpFObject) IsCollection() bool              { return false }

type vpFActor Actor

func (a vpFActor) GetID() ID                       { return a.ID }
func (a vpFActor) GetLink() IRI                    { return IRI(a.ID) }
func (a vpFActor) GetType() ActivityVocabularyType { return a.Type }
func (a vpFActor) IsLink() bool                    { return false }
func (a vpFActor) IsObject() bool                  { return true }
func (a vpFActor) IsCollection() bool              { return false }

type vpFActivity Activity

func (a vpFActivity) GetID() ID                       { return a.ID }
func (a vpFActivity) GetLink() IRI                    { return IRI(a.ID) }
func (a vpFActivity) GetType() ActivityVocabularyType { return a.Type }
func (a vpFActivity) IsLink() bool                    { return false }
func (a vpFActivity) IsObject() bool                  { return true }
func (a vpFActivity) IsCollection() bool              { return false }

type vpFIntransitiveActivity IntransitiveActivity

func (a vpFIntransitiveActivity) GetID() ID                       { return a.ID }
func (a vpFIntransitiveActivity) GetLink() IRI                    { return IRI(a.ID) }
func (a vpFIntransitiveActivity) GetType() ActivityVocabularyType { return a.Type }
func (a vpFIntransitiveActivity) IsLink() bool                    { return false }
func (a vpFIntransitiveActivity) IsObject() bool                  { return true }
func (a vpFIntransitiveActivity) IsCollection() bool              { return false }

type vpFQuestion Question

func (a vpFQuestion) GetID() ID                       { return a.ID }
func (a vpFQuestion) GetLink() IRI                    { return IRI(a.ID) }
func (a vpFQuestion) GetType() ActivityVocabularyType { return a.Type }
func (a vpFQuestion) IsLink() bool                    { return false }
func (a vpFQuestion) IsObject() bool                  { return true }
func (a vpFQuestion) IsCollection() bool              { return false }

type vpFCollection Collection

func (a vpFCollection) GetID() ID                       { return a.ID }
func (a vpFCollection) GetLink() IRI                    { return IRI(a.ID) }
func (a vpFCollection) GetType() ActivityVocabularyType { return a.Type }
func (a vpFCollection) IsLink() bool                    { return false }
func (a vpFCollection) IsObject() bool                  { return true }
func (a vpFCollection) IsCollection() bool              { return true }

type vpFCollectionPage CollectionPage

func (a vpFCollectionPage) GetID() ID                       { return a.ID }
func (a vpFCollectionPage) GetLink() IRI                    { return IRI(a.ID) }
func (a vpFCollectionPage) GetType() ActivityVocabularyType { return a.Type }
func (a vpFCollectionPage) IsLink() bool                    { return false }
func (a vpFCollectionPage) IsObject() bool                  { return true }
func (a vpFCollectionPage) IsCollection() bool              { return true }

type vpFOrderedCollection OrderedCollection

func (a vpFOrderedCollection) GetID() ID                       { return a.ID }
func (a vpFOrderedCollection) GetLink() IRI                    { return IRI(a.ID) }
func (a vpFOrderedCollection) GetType() ActivityVocabularyType { return a.Type }
func (a vpFOrderedCollection) IsLink() bool                    { return false }
func (a vpFOrderedCollection) IsObject() bool                  { return true }
func (a vpFOrderedCollection) IsCollection() bool              { return true }

type vpFOrderedCollectionPage OrderedCollectionPage

func (a vpFOrderedCollectionPage) GetID() ID                       { return a.ID }
func (a vpFOrderedCollectionPage) GetLink() IRI                    { return IRI(a.ID) }
func (a vpFOrderedCollectionPage) GetType() ActivityVocabularyType { return a.Type }
func (a vpFOrderedCollectionPage) IsLink() bool                    { return false }
func (a vpFOrderedCollectionPage) IsObject() bool                  { return true }
func (a vpFOrderedCollectionPage) IsCollection() bool              { return true }

type vpFPlace Place

func (a vpFPlace) GetID() ID                       { return a.ID }
func (a vpFPlace) GetLink() IRI                    { return IRI(a.ID) }
func (a vpFPlace) GetType() ActivityVocabularyType { return a.Type }
func (a vpFPlace) IsLink() bool                    { return false }
func (a vpFPlace) IsObject() bool                  { return true }
func (a vpFPlace) IsCollection() bool              { return false }

type vpFProfile Profile

func (a vpFProfile) GetID() ID                       { return a.ID }
func (a vpFProfile) GetLink() IRI                    { return IRI(a.ID) }
func (a vpFProfile) GetType() ActivityVocabularyType { return a.Type }
func (a vpFProfile) IsLink() bool                    { return false }
func (a vpFProfile) IsObject() bool                  { return true }
func (a vpFProfile) IsCollection() bool              { return false }

type vpFRelationship Relationship

func (a vpFRelationship) GetID() ID                       { return a.ID }
func (a vpFRelationship) GetLink() IRI                    { return IRI(a.ID) }
func (a vpFRelationship) GetType() ActivityVocabularyType { return a.Type }
func (a vpFRelationship) IsLink() bool                    { return false }
func (a vpFRelationship) IsObject() bool                  { return true }
func (a vpFRelationship) IsCollection() bool              { return false }

type vpFTombstone Tombstone

func (a vpFTombstone) GetID() ID                       { return a.ID }
func (a vpFTombstone) GetLink() IRI                    { return IRI(a.ID) }
func (a vpFTombstone) GetType() ActivityVocabularyType { return a.Type }
func (a vpFTombstone) IsLink() bool                    { return false }
func (a vpFTombstone) IsObject() bool                  { return true }
func (a vpFTombstone) IsCollection() bool              { return false }

// vpForeignOf: the same memory as x, typed as the foreign twin of x's type
func vpForeignOf(x Item) Item {
	switch p := x.(type) {
	case *Object:
		return (*vpFObject)(p)
	case *Actor:
		return (*vpFActor)(p)
	case *Activity:
		return (*vpFActivity)(p)
	case *IntransitiveActivity:
		return (*vpFIntransitiveActivity)(p)
	case *Question:
		return (*vpFQuestion)(p)
	case *Collection:
		return (*vpFCollection)(p)
	case *CollectionPage:
		return (*vpFCollectionPage)(p)
	case *OrderedCollection:
		return (*vpFOrderedCollection)(p)
	case *OrderedCollectionPage:
		return (*vpFOrderedCollectionPage)(p)
	case *Place:
		return (*vpFPlace)(p)
	case *Profile:
		return (*vpFProfile)(p)
	case *Relationship:
		return (*vpFRelationship)(p)
	case *Tombstone:
		return (*vpFTombstone)(p)
	}
	return nil
}

func vpH_C08_foreign() {
	fi := vpChoice(len(vpViewFns))
	ti := vpChoice(len(vpTypeNames) - 1) // all but Link
	x := vpPopulated(ti)
	src := vpForeignOf(x)
	vpAssert("foreign/built/"+vpTypeNames[ti], src != nil)
	if src == nil {
		return
	}
	cell := "foreign/" + vpViewFns[fi].name + "/" + vpTypeNames[ti]
	var v Item
	var err error
	p := vpMayPanic(func() { v, err = vpViewFns[fi].to(src) })
	vpAssert("view/no-panic/"+cell, !p)
	if !p && err == nil && !IsNil(v) {
		vpViewLaws(cell, x, v, true)
	}
	vpReach("end")
}
