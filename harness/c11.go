package activitypub

import "bytes"

// C11 — Clean() leaves no private recipients in what gets serialised.

var vpC11Types = []string{"Object", "Actor", "Activity", "IntransitiveActivity", "Question", "Collection", "CollectionPage",
	"OrderedCollection", "OrderedCollectionPage", "Place", "Profile", "Relationship", "Tombstone"}

var vpC11Walked = []string{"Audience", "Attachment", "Icon", "Image", "Context", "Generator", "AttributedTo", "Preview", "Tag"}

func vpPrivate(tag byte) (ItemCollection, ItemCollection) {
	return ItemCollection{vpMkIRI(tag)}, ItemCollection{vpMkIRI(tag + 1)}
}

func vpCleanable(it Item) HasRecipients {
	h, _ := it.(HasRecipients)
	return h
}

func vpHasPrivate(b []byte) bool {
	return bytes.Contains(b, []byte(`"bto"`)) || bytes.Contains(b, []byte(`"bcc"`))
}

func vpMarshalOf(it Item) []byte {
	if m, ok := it.(interface{ MarshalJSON() ([]byte, error) }); ok {
		b, err := m.MarshalJSON()
		vpAssert("marshal/no-error", err == nil)
		return b
	}
	return nil
}

// vpPlaceAt puts emb at the named position of x, directly or as a member of a list.
func vpPlaceAt(x Item, pos string, emb Item, inList bool) {
	vpPlaceAtForm(x, pos, emb, vpListForm(inList))
}

func vpListForm(inList bool) int {
	if inList {
		return 1
	}
	return 0
}

// form 0: directly; 1: the only member of a list; 2: the last member of a list after members that say
// nothing (an IRI, nil, a nil pointer, the empty IRI) - the walk goes through the whole list
func vpPlaceAtForm(x Item, pos string, emb Item, form int) {
	var v Item = emb
	list := ItemCollection{emb}
	if form == 2 {
		list = ItemCollection{IRI("https://h.ex/z"), nil, (*Object)(nil), IRI(""), emb}
	}
	if form > 0 {
		v = list
	}
	set := func(o *Object) {
		switch pos {
		case "Audience":
			o.Audience = list
		case "Tag":
			o.Tag = list
		case "Attachment":
			o.Attachment = v
		case "Icon":
			o.Icon = v
		case "Image":
			o.Image = v
		case "Context":
			o.Context = v
		case "Generator":
			o.Generator = v
		case "AttributedTo":
			o.AttributedTo = v
		case "Preview":
			o.Preview = v
		case "InReplyTo":
			o.InReplyTo = v
		case "Location":
			o.Location = v
		case "URL":
			o.URL = v
		}
	}
	if a, ok := x.(*Activity); ok {
		switch pos {
		case "Object":
			a.Object = v
			return
		case "Actor":
			a.Actor = v
			return
		case "Target":
			a.Target = v
			return
		}
	}
	_ = OnObject(x, func(o *Object) error {
		set(o)
		return nil
	})
}

func vpC11Walk(tname string) {
	ti := vpTypeIndex(tname)
	x := vpNew(ti)
	vpSetField(x, 0, 0, 'i')
	positions := vpC11Walked
	if tname == "Activity" {
		positions = append(append([]string{}, vpC11Walked...), "Object", "Actor", "Target")
	}
	pos := positions[vpChoice(len(positions))]
	form := vpChoice(3)
	// top-level private recipients
	_ = OnObject(x, func(o *Object) error {
		o.Bto, o.BCC = vpPrivate('p')
		o.To = ItemCollection{vpMkIRI('t')}
		o.Name = vpMk_NLV(0, 'n')
		return nil
	})
	// embedded object with private recipients and, one level deeper, another one
	deep := &Object{ID: vpMkIRI('d'), Type: NoteType}
	deep.Bto, deep.BCC = vpPrivate('r')
	emb := &Object{ID: vpMkIRI('e'), Type: NoteType, Summary: vpMk_NLV(0, 's'), Icon: deep}
	emb.Bto, emb.BCC = vpPrivate('q')
	vpPlaceAtForm(x, pos, emb, form)
	before := vpCloneItem(x)
	embBefore := *emb
	deepBefore := *deep
	cell := tname + "." + pos
	h := vpCleanable(x)
	vpAssert("has-clean/"+tname, h != nil)
	if h == nil {
		return
	}
	h.Clean()
	_ = OnObject(x, func(o *Object) error {
		vpAssert("top/bto-empty/"+cell, len(o.Bto) == 0)
		vpAssert("top/bcc-empty/"+cell, len(o.BCC) == 0)
		return nil
	})
	vpAssert("embedded/bto-empty/"+cell, len(emb.Bto) == 0)
	vpAssert("embedded/bcc-empty/"+cell, len(emb.BCC) == 0)
	vpAssert("deep/bto-empty/"+cell, len(deep.Bto) == 0)
	vpAssert("deep/bcc-empty/"+cell, len(deep.BCC) == 0)
	out := vpMarshalOf(x)
	vpAssert("serialised/no-private/"+cell, !vpHasPrivate(out))
	// everything else is untouched
	skip := func(n string) bool { return n == "Bto" || n == "BCC" }
	vpDiffItems("others/"+cell, before, x, func(n string) bool { return n == "Bto" || n == "BCC" || n == pos })
	vpDiff_Object("embedded-others/"+cell, &embBefore, emb, func(n string) bool { return n == "Bto" || n == "BCC" || n == "Icon" })
	vpDiff_Object("deep-others/"+cell, &deepBefore, deep, skip)
	vpAssert("embedded-still-there/"+cell, emb.Icon == Item(deep))
	vpReach("end")
}

func vpH_C11_walk_Object()   { vpC11Walk("Object") }
func vpH_C11_walk_Activity() { vpC11Walk("Activity") }
func vpH_C11_walk_Actor()    { vpC11Walk("Actor") }
func vpH_C11_walk_types()    { vpC11Walk(vpC11Types[3+vpChoice(len(vpC11Types)-3)]) }

// an activity embedded at a walked position is cleaned like a top-level one: its own object, actor and target too
func vpH_C11_embedded_activity() {
	ti := vpTypeIndex(vpC11Types[vpChoice(3)])
	x := vpNew(ti)
	vpSetField(x, 0, 0, 'i')
	positions := vpC11Walked
	if vpTypeNames[ti] == "Activity" {
		positions = append(append([]string{}, vpC11Walked...), "Object", "Target")
	}
	pos := positions[vpChoice(len(positions))]
	inner := &Object{ID: vpMkIRI('d'), Type: NoteType}
	inner.Bto, inner.BCC = vpPrivate('r')
	who := &Actor{ID: vpMkIRI('w'), Type: PersonType}
	who.Bto, who.BCC = vpPrivate('s')
	emb := &Activity{ID: vpMkIRI('e'), Type: CreateType, Object: inner, Actor: who}
	emb.Bto, emb.BCC = vpPrivate('q')
	vpPlaceAt(x, pos, emb, vpBool())
	cell := vpTypeNames[ti] + "." + pos
	vpCleanable(x).Clean()
	vpAssert("embedded-activity/own-lists-empty/"+cell, len(emb.Bto) == 0 && len(emb.BCC) == 0)
	vpAssert("embedded-activity/object-cleaned/"+cell, len(inner.Bto) == 0 && len(inner.BCC) == 0)
	vpAssert("embedded-activity/actor-cleaned/"+cell, len(who.Bto) == 0 && len(who.BCC) == 0)
	vpAssert("embedded-activity/serialised/"+cell, !vpHasPrivate(vpMarshalOf(x)))
	vpReach("end")
}

// positions that are not walked are left exactly as they were
func vpH_C11_unwalked() {
	ti := vpTypeIndex(vpC11Types[vpChoice(3)])
	x := vpNew(ti)
	vpSetField(x, 0, 0, 'i')
	pos := []string{"InReplyTo", "Location", "URL"}[vpChoice(3)]
	emb := &Object{ID: vpMkIRI('e'), Type: NoteType}
	emb.Bto, emb.BCC = vpPrivate('q')
	vpPlaceAt(x, pos, emb, false)
	embBefore := *emb
	before := vpCloneItem(x)
	vpCleanable(x).Clean()
	vpDiff_Object("unwalked/embedded-untouched/"+pos, &embBefore, emb, nil)
	vpDiffItems("unwalked/others/"+pos, before, x, func(n string) bool { return n == "Bto" || n == "BCC" })
	vpReach("end")
}

// the list put in bto/bcc is the same list value that another property (of the value itself, or of an
// object it embeds) holds: the other property keeps its members
func vpH_C11_shared_list() {
	ti := vpTypeIndex(vpC11Types[vpChoice(len(vpC11Types))])
	x := vpNew(ti)
	vpSetField(x, 0, 0, 'i')
	one := ItemCollection{IRI("https://h.ex/a"), IRI("https://h.ex/b")}
	two := ItemCollection{IRI("https://h.ex/c")}
	emb := &Object{ID: IRI("https://h.ex/e"), Type: NoteType, To: one, CC: two}
	emb.Bto, emb.BCC = two, one
	_ = OnObject(x, func(o *Object) error {
		o.BCC, o.CC = one, one
		o.Bto, o.To = two, two
		o.Audience = two
		o.Attachment = emb
		return nil
	})
	tname := vpTypeNames[ti]
	vpCleanable(x).Clean()
	_ = OnObject(x, func(o *Object) error {
		vpAssert("shared/lists-empty/"+tname, len(o.Bto) == 0 && len(o.BCC) == 0 && len(emb.Bto) == 0 && len(emb.BCC) == 0)
		vpAssert("shared/cc-kept/"+tname, len(o.CC) == 2 && o.CC[0] == Item(IRI("https://h.ex/a")) && o.CC[1] == Item(IRI("https://h.ex/b")))
		vpAssert("shared/to-kept/"+tname, len(o.To) == 1 && o.To[0] == Item(IRI("https://h.ex/c")))
		vpAssert("shared/audience-kept/"+tname, len(o.Audience) == 1 && o.Audience[0] == Item(IRI("https://h.ex/c")))
		return nil
	})
	vpAssert("shared/embedded-to-kept/"+tname, len(emb.To) == 2 && emb.To[0] == Item(IRI("https://h.ex/a")) && emb.To[1] == Item(IRI("https://h.ex/b")))
	vpAssert("shared/embedded-cc-kept/"+tname, len(emb.CC) == 1 && emb.CC[0] == Item(IRI("https://h.ex/c")))
	vpAssert("shared/the-list-itself-kept/"+tname, one[0] == Item(IRI("https://h.ex/a")) && one[1] == Item(IRI("https://h.ex/b")) && two[0] == Item(IRI("https://h.ex/c")))
	vpAssert("shared/serialised/"+tname, !vpHasPrivate(vpMarshalOf(x)))
	vpReach("end")
}

// two walked positions populated together with values that are related to each other: the first holds the
// bare IRI of the second's id, a thinner value of the same id and type, an equal copy, the very same
// pointer, or an unrelated value. Whatever the relation, every embedded value that carries private lists is
// cleaned - a walk that skips a position because "that item was seen already" (judged by ItemsEqual, by id,
// or by type) leaves them in (seed C11-17).
func vpH_C11_related() {
	ti := vpTypeIndex(vpC11Types[vpChoice(3)])
	x := vpNew(ti)
	vpSetField(x, 0, 0, 'i')
	positions := vpC11Walked
	if vpTypeNames[ti] == "Activity" {
		positions = append([]string{"Object", "Actor", "Target"}, vpC11Walked...)
	}
	i1 := vpChoice(len(positions))
	i2 := vpChoice(len(positions))
	if i1 == i2 {
		return
	}
	p1, p2 := positions[i1], positions[i2]
	deep := &Object{ID: vpMkIRI('d'), Type: NoteType}
	deep.Bto, deep.BCC = vpPrivate('r')
	second := &Actor{ID: vpMkIRI('e'), Type: PersonType, Summary: vpMk_NLV(0, 's'), Icon: deep}
	second.Bto, second.BCC = vpPrivate('q')
	var first Item
	var firstObj *Actor
	rel := vpChoice(5)
	switch rel {
	case 0:
		first = second.ID
	case 1:
		firstObj = &Actor{ID: second.ID, Type: second.Type}
		first = firstObj
	case 2:
		c := *second
		c.Bto, c.BCC = vpPrivate('u')
		firstObj = &c
		first = firstObj
	case 3:
		first = second
	default:
		firstObj = &Actor{ID: vpMkIRI('f'), Type: PersonType}
		firstObj.Bto, firstObj.BCC = vpPrivate('v')
		first = firstObj
	}
	vpPlaceAtForm(x, p1, first, vpChoice(2))
	vpPlaceAtForm(x, p2, second, vpChoice(2))
	cell := vpTypeNames[ti] + "." + p1 + "+" + p2 + "/" + string(rune('0'+rel))
	vpCleanable(x).Clean()
	vpAssert("related/second-cleaned/"+cell, len(second.Bto) == 0 && len(second.BCC) == 0)
	vpAssert("related/below-second-cleaned/"+cell, len(deep.Bto) == 0 && len(deep.BCC) == 0)
	if firstObj != nil {
		vpAssert("related/first-cleaned/"+cell, len(firstObj.Bto) == 0 && len(firstObj.BCC) == 0)
	}
	vpAssert("related/serialised/"+cell, !vpHasPrivate(vpMarshalOf(x)))
	vpReach("end")
}

func vpW_C11_twin() {
	x := &Object{ID: vpMkIRI('i'), Type: NoteType}
	x.Clean()
	vpAssert("twin", false)
}
