package activitypub

import "strings"

// C15 — collection IRIs and their owners convert back and forth consistently.

var vpC15Names = []CollectionPath{Outbox, Inbox, Liked, Following, Followers, Likes, Shares, Replies}

// vpOwner builds an absolute owner URL without query or fragment.
// form: 0 plain segments, 1 a segment that is itself a collection name, 2 a percent-escaped segment
func vpOwner(nseg int, port, trailing bool, form int) string {
	s := "https://" + string([]byte{vpAlnum()}) + ".ex"
	if port {
		s += ":8" + string([]byte{vpRange('0', '9')})
	}
	for i := 0; i < nseg; i++ {
		s += "/"
		switch {
		case form == 1 && i == 0:
			s += string(vpC15Names[vpChoice(len(vpC15Names))])
		case form == 2 && i == 0:
			s += "%4" + string([]byte{vpRange('1', '9')}) // %41..%49 = A..I
		default:
			s += string([]byte{vpAlnum(), vpAlnum()})
		}
	}
	if trailing {
		s += "/"
	}
	return s
}

func vpC15Equivalent(a, b IRI) bool {
	if strings.TrimRight(string(a), "/") == strings.TrimRight(string(b), "/") {
		return true
	}
	return a.Equals(b, true)
}

func vpC15Laws(o IRI, lastIsName bool) {
	c := vpC15Names[vpChoice(len(vpC15Names))]
	built := IRIf(o, c)
	owner, name := Split(built)
	vpAssert("split/name", name == c)
	vpAssert("split/owner", vpC15Equivalent(owner, o))
	vpAssert("split/owner-valid", len(owner) > 0)
	built2 := c.IRI(o)
	vpAssert("iri/same-as-IRIf", built2 == built)
	back, err := c.OfActor(built2)
	vpAssert("ofactor/ok", err == nil)
	vpAssert("ofactor/owner", vpC15Equivalent(back, o))
	vpAssert("valid/built", ValidCollectionIRI(built))
	if !lastIsName {
		vpAssert("valid/owner-is-not", !ValidCollectionIRI(o))
	}
	vpReach("end")
}

func vpH_C15_plain() {
	o := vpOwner(vpChoice(3), vpBool(), vpBool(), 0)
	vpC15Laws(IRI(o), false)
}

func vpH_C15_nameseg() {
	nseg := 1 + vpChoice(2)
	trailing := vpBool()
	o := vpOwner(nseg, false, trailing, 1)
	vpC15Laws(IRI(o), nseg == 1)
}

func vpH_C15_escape() {
	o := vpOwner(1+vpChoice(2), false, vpBool(), 2)
	vpC15Laws(IRI(o), false)
}

// owners whose last segment merely begins or ends with a collection name (inboxes, likes2, xinbox,
// outbox.json): not collection IRIs, and owners like any other
func vpH_C15_near_names() {
	n := string(vpC15Names[vpChoice(len(vpC15Names))])
	x := string([]byte{vpAlnum()})
	var last string
	switch vpChoice(4) {
	case 0:
		last = n + x
	case 1:
		last = x + n
	case 2:
		last = n + "." + x
	default:
		last = n + "-" + x
	}
	o := "https://h.ex"
	if vpBool() {
		o += "/users"
	}
	o += "/" + last
	if vpBool() {
		o += "/"
	}
	_, name := Split(IRI(o))
	vpAssert("near-names/not-split-as-a-collection", name == Unknown)
	vpC15Laws(IRI(o), false)
}

func vpT_C15_deep() {
	o := vpOwner(3, vpBool(), vpBool(), vpChoice(3))
	vpC15Laws(IRI(o), false)
}

// explicit collection properties win over the built IRI
func vpH_C15_of_object() {
	id := IRI(vpOwner(1, false, vpBool(), 0))
	explicit := IRI("https://x.ex/" + string([]byte{vpAlnum()}))
	which := vpChoice(3)
	c := []CollectionPath{Likes, Shares, Replies}[which]
	ob := &Object{ID: id, Type: NoteType}
	var holder Item = ob
	switch vpChoice(3) {
	case 1:
		// likes, shares and replies of an actor: an actor is an object too
		act := &Actor{ID: id, Type: []ActivityVocabularyType{PersonType, ServiceType, GroupType}[vpChoice(3)]}
		holder = act
		ob, _ = ToObject(act)
	case 2:
		// ... and so is every other vocabulary type (a question, a place, a page, an activity ...)
		ti := 2 + vpChoice(len(vpTypeNames)-3)
		h := vpNew(ti)
		vpSetID(h, id)
		holder = h
		ob, _ = ToObject(h)
		if ob == nil {
			vpReach("end")
			return
		}
	}
	set := vpBool()
	if set {
		// the explicit collection is given as its IRI or as an embedded collection that has that id
		var val Item = explicit
		switch vpChoice(3) {
		case 1:
			val = &OrderedCollection{ID: explicit, Type: OrderedCollectionType}
		case 2:
			val = &Collection{ID: explicit, Type: CollectionType, TotalItems: 3}
		}
		switch which {
		case 0:
			ob.Likes = val
		case 1:
			ob.Shares = val
		case 2:
			ob.Replies = val
		}
		// what was set is what the holder's own type calls by that name (read through the struct's own
		// field, generated from its definition: the helpers look at holders of every type through the
		// Object view, which is only right while the layouts agree)
		vpAssert("of/explicit-is-the-holders-own-property", vpGetItemField(holder, []string{"Likes", "Shares", "Replies"}[which]) == val)
	}
	got := c.Of(holder)
	gotIRI := c.IRI(holder)
	if set {
		vpAssert("of/explicit", got != nil && got.GetLink() == explicit)
		vpAssert("iri/explicit", gotIRI == explicit)
	} else {
		vpAssert("of/built", got != nil && got.GetLink() == IRIf(id, c))
		vpAssert("iri/built", gotIRI == IRIf(id, c))
	}
	// the other collections are unaffected
	for i, oc := range []CollectionPath{Likes, Shares, Replies} {
		if i != which {
			vpAssert("of/others-built", oc.IRI(holder) == IRIf(id, oc))
		}
	}
	vpReach("end")
}

func vpH_C15_of_actor() {
	id := IRI(vpOwner(1, false, vpBool(), 0))
	explicit := IRI("https://x.ex/" + string([]byte{vpAlnum()}))
	which := vpChoice(5)
	names := []CollectionPath{Inbox, Outbox, Liked, Following, Followers}
	c := names[which]
	a := &Actor{ID: id, Type: PersonType}
	set := vpBool()
	if set {
		var val Item = explicit
		if vpBool() {
			val = &OrderedCollection{ID: explicit, Type: OrderedCollectionType}
		}
		switch which {
		case 0:
			a.Inbox = val
		case 1:
			a.Outbox = val
		case 2:
			a.Liked = val
		case 3:
			a.Following = val
		case 4:
			a.Followers = val
		}
	}
	got := c.Of(a)
	gotIRI := c.IRI(a)
	if set {
		vpAssert("of/explicit", got != nil && got.GetLink() == explicit)
		vpAssert("iri/explicit", gotIRI == explicit)
	} else {
		vpAssert("of/built", got != nil && got.GetLink() == IRIf(id, c))
		vpAssert("iri/built", gotIRI == IRIf(id, c))
	}
	for i, oc := range names {
		if i != which {
			vpAssert("of/others-built", oc.IRI(a) == IRIf(id, oc))
		}
	}
	vpReach("end")
}

// AddTo fills in the built collection IRI where none is set and leaves an explicit one alone, for
// every collection name, whatever the neighbouring collection properties hold
func vpH_C15_addto() {
	id := IRI(vpOwner(1, false, false, 0))
	explicit := IRI("https://x.ex/" + string([]byte{vpAlnum()}))
	isActor := vpBool()
	var names []CollectionPath
	var x Item
	a := &Actor{ID: id, Type: PersonType}
	o := &Object{ID: id, Type: NoteType}
	if isActor {
		names = []CollectionPath{Inbox, Outbox, Liked, Following, Followers}
		x = a
	} else {
		names = []CollectionPath{Likes, Shares, Replies}
		x = o
	}
	which := vpChoice(len(names))
	other := vpChoice(len(names))
	c := names[which]
	get := func(c CollectionPath) Item {
		switch c {
		case Inbox:
			return a.Inbox
		case Outbox:
			return a.Outbox
		case Liked:
			return a.Liked
		case Following:
			return a.Following
		case Followers:
			return a.Followers
		case Likes:
			return o.Likes
		case Shares:
			return o.Shares
		}
		return o.Replies
	}
	set := func(c CollectionPath, v Item) {
		switch c {
		case Inbox:
			a.Inbox = v
		case Outbox:
			a.Outbox = v
		case Liked:
			a.Liked = v
		case Following:
			a.Following = v
		case Followers:
			a.Followers = v
		case Likes:
			o.Likes = v
		case Shares:
			o.Shares = v
		default:
			o.Replies = v
		}
	}
	wasSet := vpBool()
	if wasSet {
		set(c, explicit)
	}
	otherSet := other != which && vpBool()
	otherVal := IRI("https://y.ex/other")
	if otherSet {
		set(names[other], otherVal)
	}
	iri, ok := c.AddTo(x)
	if wasSet {
		vpAssert("addto/explicit-kept", get(c) != nil && get(c).GetLink() == explicit)
		vpAssert("addto/explicit-reports-nothing-added", !ok)
	} else {
		vpAssert("addto/built-set", ok && iri == IRIf(id, c) && get(c) != nil && get(c).GetLink() == IRIf(id, c))
	}
	for i, oc := range names {
		if i == which {
			continue
		}
		if otherSet && i == other {
			vpAssert("addto/others-untouched", get(oc) != nil && get(oc).GetLink() == otherVal)
		} else {
			vpAssert("addto/others-untouched", get(oc) == nil)
		}
	}
	vpAssert("addto/iri-agrees", c.IRI(x) == get(c).GetLink())
	vpReach("end")
}

func vpW_C15_twin() {
	o := vpOwner(1, false, false, 0)
	_, _ = Split(IRIf(IRI(o), Inbox))
	vpAssert("twin", false)
}
