package activitypub

// Harness API. The symbolic engine intercepts these functions by name and never
// interprets their bodies; natively they are driven by a recorded tape so that a
// solver model can be replayed against the real build.

import (
	"fmt"
	"strconv"
)

type vpDraw struct {
	K string `json:"k"`
	V uint64 `json:"v"`
	N int    `json:"n,omitempty"`
}

type vpState struct {
	tape      []vpDraw
	pos       int
	fails     []string
	reached   []string
	observes  []string
	exhausted bool
	mismatch  string
}

type vpStop struct{}
type vpAssumeFailed struct{}

var vpS = &vpState{}

func vpNext(kind string) uint64 {
	if vpS.pos >= len(vpS.tape) {
		vpS.exhausted = true
		panic(vpStop{})
	}
	d := vpS.tape[vpS.pos]
	vpS.pos++
	if d.K != kind {
		vpS.mismatch = fmt.Sprintf("tape position %d holds %q, harness asked for %q", vpS.pos-1, d.K, kind)
		panic(vpStop{})
	}
	return d.V
}

// vpByte returns an unconstrained byte.
func vpByte() byte { return byte(vpNext("byte")) }

// vpChoice returns a value in [0,n); the engine forks on it.
func vpChoice(n int) int { return int(vpNext("choice")) }

// vpInt returns an integer in [lo,hi].
func vpInt(lo, hi int64) int64 { return int64(vpNext("int")) }

// vpAssume restricts the inputs considered; must precede the code it constrains.
func vpAssume(c bool) {
	if !c {
		panic(vpAssumeFailed{})
	}
}

// vpAssert states a property; failing is recorded and execution continues.
func vpAssert(id string, c bool) {
	if !c {
		vpS.fails = append(vpS.fails, id)
	}
}

// vpReach is a vacuity witness.
func vpReach(id string) { vpS.reached = append(vpS.reached, id) }

// vpFreeze makes all memory allocated so far read-only (engine only).
func vpFreeze() {}

// vpEvents switches the engine's memory-safety event reporting on or off.
func vpEvents(on bool) {}

// vpSymbolic reports whether the harness runs under the engine.
func vpSymbolic() bool { return false }

// vpObserve logs a value in both worlds for comparison.
func vpObserve(id string, v any) {
	var s string
	switch x := v.(type) {
	case bool:
		s = strconv.FormatBool(x)
	case int:
		s = strconv.FormatInt(int64(x), 10)
	case int64:
		s = strconv.FormatInt(x, 10)
	case uint:
		s = strconv.FormatInt(int64(x), 10)
	case uint64:
		s = strconv.FormatInt(int64(x), 10)
	case byte:
		s = strconv.FormatInt(int64(x), 10)
	case string:
		s = strconv.Quote(x)
	case []byte:
		if x == nil {
			s = "nil"
		} else {
			s = strconv.Quote(string(x))
		}
	default:
		s = fmt.Sprintf("<%T>", v)
	}
	vpS.observes = append(vpS.observes, id+"="+s)
}

// vpMayPanic runs f and reports whether it panicked.
func vpMayPanic(f func()) (panicked bool) {
	defer func() {
		if r := recover(); r != nil {
			if _, ok := r.(vpStop); ok {
				panic(r)
			}
			if _, ok := r.(vpAssumeFailed); ok {
				panic(r)
			}
			panicked = true
		}
	}()
	f()
	return false
}

// ---- small helpers shared by harnesses (interpreted by the engine)

// vpBytes returns n unconstrained bytes.
func vpBytes(n int) []byte {
	b := make([]byte, n)
	for i := range b {
		b[i] = vpByte()
	}
	return b
}

// vpLower returns a byte in [a-z].
func vpLower() byte {
	c := vpByte()
	vpAssume(c >= 'a')
	vpAssume(c <= 'z')
	return c
}

// vpAlnum returns a byte in [a-z0-9].
func vpAlnum() byte {
	c := vpByte()
	vpAssume(vpAlnumTab[c])
	return c
}

// vpRange returns a byte in [lo,hi].
func vpRange(lo, hi byte) byte {
	c := vpByte()
	vpAssume(c >= lo)
	vpAssume(c <= hi)
	return c
}

func vpBool() bool { return vpChoice(2) == 1 }

var vpAlnumTab = func() (t [256]bool) {
	for c := 'a'; c <= 'z'; c++ {
		t[c] = true
	}
	for c := '0'; c <= '9'; c++ {
		t[c] = true
	}
	return
}()

// vpStdJSONString is the engine's model of encoding/json.Marshal(string): the standard JSON string
// encoder with HTML escaping (transcribed from encoding/json's appendString). The engine calls it in
// place of the reflection-based json.Marshal; natively the real function runs, so any difference
// shows up as a conformance disagreement.
func vpStdJSONString(s string) []byte {
	const hexd = "0123456789abcdef"
	dst := []byte{'"'}
	for i := 0; i < len(s); {
		b := s[i]
		if b < 0x80 {
			if b >= 0x20 && b != '"' && b != '\\' && b != '<' && b != '>' && b != '&' {
				dst = append(dst, b)
				i++
				continue
			}
			switch b {
			case '\\', '"':
				dst = append(dst, '\\', b)
			case '\b':
				dst = append(dst, '\\', 'b')
			case '\f':
				dst = append(dst, '\\', 'f')
			case '\n':
				dst = append(dst, '\\', 'n')
			case '\r':
				dst = append(dst, '\\', 'r')
			case '\t':
				dst = append(dst, '\\', 't')
			default:
				dst = append(dst, '\\', 'u', '0', '0', hexd[b>>4], hexd[b&0xF])
			}
			i++
			continue
		}
		// multi-byte: copy valid sequences, replace invalid bytes by U+FFFD, escape U+2028/9
		n := len(s) - i
		if n > 4 {
			n = 4
		}
		r, size := vpDecodeRune(s[i : i+n])
		if r == 0xFFFD && size == 1 {
			dst = append(dst, '\\', 'u', 'f', 'f', 'f', 'd')
			i += size
			continue
		}
		if r == 0x2028 || r == 0x2029 {
			dst = append(dst, '\\', 'u', '2', '0', '2', hexd[r&0xF])
			i += size
			continue
		}
		dst = append(dst, s[i:i+size]...)
		i += size
	}
	return append(dst, '"')
}

func vpDecodeRune(s string) (rune, int) {
	for i, r := range s {
		if i == 0 {
			if r == 0xFFFD {
				// either a real U+FFFD (3 bytes) or an invalid byte (width 1)
				if len(s) >= 3 && s[0] == 0xEF && s[1] == 0xBF && s[2] == 0xBD {
					return r, 3
				}
				return r, 1
			}
			n := 1
			switch {
			case r >= 0x10000:
				n = 4
			case r >= 0x800:
				n = 3
			case r >= 0x80:
				n = 2
			}
			return r, n
		}
	}
	return 0xFFFD, 1
}

// vpGobHostile switches the engine's gob model to hostile mode (Decode answers with an error or
// an arbitrary well-typed value); natively it does nothing.
func vpGobHostile(on bool) {}
